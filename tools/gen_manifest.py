#!/usr/bin/env python3
"""Regenerate MANIFEST.json from the table below (single source of truth for what is claimed)."""
import json, os, subprocess
V = os.path.dirname(os.path.dirname(os.path.abspath(__file__)))
ids = [json.loads(l)["id"] for l in open(os.path.join(V, "properties.jsonl"))]
TB = "TLC and the TLA+ CommunityModules; the Rust harness (dynamic Shape/Val serde bridge, JSON logging, guard pages, counting allocator); the Python driver. Bounded model checking proves nothing beyond its constants; the implementation is bound to the specification only on the executions recorded/replayed in the run."
CLAIMED = {
 "C01": ("5.C01", "Wire.tla Enc/Dec model-checked (round trip, all shapes to depth 1-2, scaled domains; varint machines exhaustively for 16 bits); every model state replayed as a vector on the real code through all 7 encode x 5 decode entry points; recorded round-trip events (random shape trees, boundary values, tails) validated by TLC against the specification.",
         "TLA+ wire-format spec + TLC model checking + trace validation of recorded round trips"),
 "C02": ("5.C02", "Encoder output compared byte-for-byte by TLC with Wire!Enc (written from wire-format.md; canonical varints via Canon on bit vectors); writer-loop machine model-checked equal to Canon for every 16-bit value and structured 32/64/128-bit values; declared lengths at every power of two, unknown lengths and collect_str recorded and validated.",
         "TLA+ Enc as oracle; TLC validates recorded encoder events; MC of the varint writer machine"),
 "C03": ("5.C03", "Decoder outcomes (accept/reject, value, consumed, error kind) of the real code validated by TLC against Wire!Dec for prefixes, substitutions, re-paddings, adversarial lengths, random bytes, and exhaustive/sampled byte strings for the 16-bit decoders; reader-loop machine model-checked equivalent to the functional acceptance rule.",
         "TLA+ Dec as total oracle; TLC validates recorded decode events incl. exhaustive 16-bit batches"),
 "C08": ("5.C08", "Accumulator.tla (feed_ref's five branches as a step function) model-checked in an environment that feeds any chunk in any state, restricted to streams whose segments fit (no OverFull reachable; one result per zero; conservation; frame result = isolated decode); every edge of the unrestricted graphs replayed on the real CobsAccumulator<N> through the state hook under two stale-buffer regimes and feed/feed_ref; long random and exhaustively chunked streams validated step by step by TLC with a ghost current-segment.",
         "TLA+ accumulator model + TLC; every model edge replayed on the implementation; stream traces validated with ghost state"),
 "C09": ("5.C09", "Same model without the fit restriction: IdxBound, InitAfterZero, OverflowReported, Resync as per-edge obligations, Progress as an action property (well-founded measure) and <>drain under fairness on the smallest instance; the same edge replay and stream traces judged on the over-long/garbage steps, plus panics, index bound and loop-iteration bound everywhere.",
         "TLA+ accumulator model + TLC (safety, progress measure, liveness on N=2); edge replay; stream traces"),
 "C13": ("5.C13", "fixle/fixbe shapes in Wire.tla; MC_Fix checks the entire 16-bit domain and structured wider values; recorded events for the whole 16-bit domain of u16/i16 x le/be, single-byte-nonzero/extreme/random values for all 8 types through all entry pairings, truncations, and a derived struct with #[serde(with)] validated by TLC.",
         "TLA+ Enc/Dec for fixed-width shapes; TLC validates recorded adapter events (exhaustive for 16 bits)"),
}
PENDING = "check under construction in this session (see DESIGN.md section 8 for the order of construction)"
m = {
 "version": 1,
 "setup_cmd": "./setup.sh",
 "hooks": {"guard": "--cfg postcard_verif",
           "enable": "harness/.cargo/config.toml passes rustflags --cfg postcard_verif to every crate the harness workspace builds (path dependencies on /repo/source/*)",
           "baseline_off_cmd": "cd /repo && cargo test --workspace --no-fail-fast --offline",
           "source_commits": ["4a71a41", "390e524"], "add_only": True},
 "engines": [{"name": "check", "path": "check", "serves_properties": sorted(CLAIMED), "kind_free_text": "python driver: cargo-builds the harness against /repo, runs TLC model checking (spec/mc), generates traces with the harness and validates them with TLC (spec/trace)"}],
 "checks": [],
 "notes": "Model-based verification with an explicit TLA+ specification; see DESIGN.md. Exit codes: 0 held, 1 VIOLATION, 2 tool error.",
 "not_applicable": [{"property_id": i, "reason": PENDING} for i in ids if i not in CLAIMED],
}
for i in sorted(CLAIMED):
    ref, text, tech = CLAIMED[i]
    m["checks"].append({"property_id": i, "quick_cmd": f"./check {i} --tier quick", "thorough_cmd": f"./check {i} --tier thorough",
                        "evidence_file": f"evidence/{i}.json", "replay_cmd_template": f"./check {i} --replay {{path}}", "engine": "check",
                        "level_claimed": {"category": "model_checking", "text": text, "design_ref": ref},
                        "level_note": TB, "technique": tech})
json.dump(m, open(os.path.join(V, "MANIFEST.json"), "w"), indent=1)
print("claimed:", sorted(CLAIMED))
