#!/usr/bin/env python3
"""Regenerate MANIFEST.json from the table below (single source of truth for what is claimed)."""
import json, os, subprocess
V = os.path.dirname(os.path.dirname(os.path.abspath(__file__)))
ids = [json.loads(l)["id"] for l in open(os.path.join(V, "properties.jsonl"))]
TB = "TLC and the TLA+ CommunityModules; the Rust harness (dynamic Shape/Val serde bridge, JSON logging, guard pages, counting allocator); the Python driver. Bounded model checking proves nothing beyond its constants; the implementation is bound to the specification only on the executions recorded/replayed in the run."
CLAIMED = {
 "C01": ("5.C01", "Wire.tla Enc/Dec model-checked (round trip, all shapes to depth 1-2, scaled domains; varint machines exhaustively for 16 bits); every model state replayed as a vector on the real code through all 7 encode x 5 decode entry points; recorded round-trip events (random shape trees, boundary values, tails) validated by TLC against the specification.",
         "TLA+ wire-format spec + TLC model checking + trace validation of recorded round trips"),
 "C02": ("5.C02", "Encoder output compared byte-for-byte by TLC with Wire!Enc (written from wire-format.md; canonical varints via Canon on bit vectors); writer-loop machine model-checked equal to Canon for every 16-bit value and structured 32/64/128-bit values; declared lengths at every power of two, unknown lengths and collect_str recorded and validated.",
         "TLA+ Enc as oracle; TLC validates recorded encoder events; MC of the varint writer machine"),
 "C03": ("5.C03", "Decoder outcomes (accept/reject, value, consumed, error kind) of the real code validated by TLC against Wire!Dec for prefixes, substitutions, re-paddings, adversarial lengths, random bytes, and exhaustive/sampled byte strings for the 16-bit decoders; reader-loop machine model-checked equivalent to the functional acceptance rule.",
         "TLA+ Dec as total oracle; TLC validates recorded decode events incl. exhaustive 16-bit batches"),
 "C08": ("5.C08", "Accumulator.tla (feed_ref's five branches as a step function) model-checked in an environment that feeds any chunk in any state, restricted to streams whose segments fit (no OverFull reachable; one result per zero; conservation; frame result = isolated decode); every edge of the unrestricted graphs replayed on the real CobsAccumulator<N> through the state hook under two stale-buffer regimes and feed/feed_ref; long random and exhaustively chunked streams validated step by step by TLC with a ghost current-segment.",
         "TLA+ accumulator model + TLC; every model edge replayed on the implementation; stream traces validated with ghost state"),
 "C09": ("5.C09", "Same model without the fit restriction: IdxBound, InitAfterZero, OverflowReported, Resync as per-edge obligations, Progress as an action property (well-founded measure) and <>drain under fairness on the smallest instance; the same edge replay and stream traces judged on the over-long/garbage steps, plus panics, index bound and loop-iteration bound everywhere.",
         "TLA+ accumulator model + TLC (safety, progress measure, liveness on N=2); edge replay; stream traces"),
 "C13": ("5.C13", "fixle/fixbe shapes in Wire.tla; MC_Fix checks the entire 16-bit domain and structured wider values; recorded events for the whole 16-bit domain of u16/i16 x le/be, single-byte-nonzero/extreme/random values for all 8 types through all entry pairings, truncations, and a derived struct with #[serde(with)] validated by TLC.",
         "TLA+ Enc/Dec for fixed-width shapes; TLC validates recorded adapter events (exhaustive for 16 bits)"),
 "C05": ("5.C05", "SerPipe.tla: the flavour pipeline as a machine over a bounded store, model-checked for every message (<=5..7 bytes), every block/push emit choice, every capacity and the stacks plain/COBS/CRC/CRC-in-COBS: never a write at an index >= cap, success iff cap >= Len(Full), output = Full. Real code: for each (value, stack) the outcome at every capacity 0..len+2 for slice (guard page + canary), heapless, growable, Extend and size storages is validated by TLC against the threshold rule.",
         "TLA+ pipeline machine + TLC (all capacities); recorded per-capacity outcomes validated against the spec"),
 "C06": ("5.C06", "Cobs.tla: functional COBS by groups and the streaming encoder machine shown equal (scaled MAXRUN, all messages, all capacities), frame shape invariants (one zero, last; decodes back; length formula as upper bound, exact for zero-free messages). Real code: COBS-stack outputs incl. run lengths around 254/508/762 compared with Framed(Enc); frame sequences consumed frame by frame with take_from_bytes_cobs validated (value, remainder offset, buffer after).",
         "TLA+ COBS spec + TLC; recorded encoder outputs and frame-by-frame decoding validated"),
 "C07": ("5.C07", "In-place decode_raw machine model-checked on every byte string <=7..8 over 0..MAXRUN+1 (scaled): read/write index invariants, failure iff a code points past the frame, result = functional decoder, bytes behind the result intact. Real code: every string <=6..8 over {00,01,02,03,FF} x 7 targets, corrupted/truncated frames, random bytes through from/take_from_bytes_cobs on guard-page buffers validated against TakeFromCobs/FromCobs.",
         "TLA+ in-place decoder machine + TLC (exhaustive short strings); recorded decodes validated"),
 "C10": ("5.C10", "Crc.tla (Rocksoft model on bit vectors; parameters read from the crate and self-checked against the catalogue). MC_Crc: for CRC-8/16 every payload burst <= width (in processing bit order) and every checksum-only damage is rejected; block and byte digest updates agree. Real code: CRC-stack outputs for 13 algorithms / 5 widths compared with Enc o LE(crc); per sampled frame every truncation, single-bit flip, bursts, checksum-only and random damage decoded through from/take_from_bytes_uN and judged by the converse clause.",
         "TLA+ CRC model + TLC detection check; recorded CRC encode/decode events validated (exhaustive flips per frame)"),
 "C20": ("5.C20", "SerPipe!Full = fold of the layer transformations in stack order, independent of storage; MC_SerPipe explores every mix of push/extend emit modes through every stack. Real code: CRC-in-COBS, COBS, CRC over slice/heapless/growable validated against Full; a recording user flavour (with and without block override, bare and under CRC) must receive exactly the plain encoding, then finalize.",
         "TLA+ layer composition + TLC; recorded stacked outputs and user-flavour call logs validated"),
 "C04": ("5.C04", "DePipe.tla cursor machines (slice; reader with sliding scratch) model-checked under arbitrary call sequences with counts up to usize::MAX (cursor in bounds, block handed out iff inside the remaining input, no over-read). Real code: every pop/try_take_n/size_hint/finalize the Deserializer issues on a recording slice flavour validated step by step against the machine, for valid/truncated/length-attacked/damaged/random inputs on guard-page buffers; borrowed-leaf offsets, panics and refused requests from the wire trace; allocation of 12 concrete std targets under adversarial claimed lengths bounded by the spec's AllocBound.",
         "TLA+ cursor machine + TLC; op-level trace validation; observed panics/crashes/allocation as constrained event fields"),
 "C11": ("5.C11", "MC_Transport: read_exact over nondeterministic pieces with a fault offset never over-reads and is equivalent to a stream truncated at the fault. Real code: scripted std::io / embedded-io writers and readers (piece schedules, fault or Ok(0) at every offset), 1..3 messages per stream, scratch 0..need+1; per-message result, reader position (= message length exactly), scratch remainder and borrowed offsets validated by TLC against Wire!Dec on the readable part plus the scratch accounting.",
         "TLA+ transport environment + TLC; recorded transport behaviours validated against Dec + scratch accounting"),
 "C14": ("5.C14", "SchemaModel!Conforms relates a schema node to a recorded serde call tree (kinds; field names and order; variant index, name and data form; arity; element/key/value conformance; the Schema kind via the meta-schema). For every built-in Schema implementor and a derived corpus, the borrowed SCHEMA (walked independently) must conform to the call tree of each generated value, and Wire!Dec over ShapeOf(schema) must consume the postcard bytes exactly.",
         "TLA+ conformance relation; TLC validates recorded (schema, call tree, bytes) events"),
 "C15": ("5.C15", "EncSchema/DecMeta (schema-of-schema wire format with the published variant order) model-checked mutually inverse on all trees of depth<=1..2; every such tree and random deep trees are built at run time in borrowed form: borrowed bytes, owned bytes, conversion, decoding and equality validated by TLC.",
         "TLA+ schema wire format + TLC; enumerated trees replayed as vectors; random-tree traces validated"),
 "C16": ("5.C16", "KeyStream (documented tag/name stream) and FNV-1a-64 on byte limbs in TLA+; MC: type-name insensitivity, single-node mutation sensitivity, no collision in the enumerated set. Real code: const hasher (through the cfg-guarded hook), owned hasher and Key::for_path::<T> compared with the spec key on enumerated trees, random trees, every bounded single-node mutant and path mutants.",
         "TLA+ key stream + FNV model; TLC validates both hashers on trees and their mutants"),
 "C19": ("5.C19", "Subtrees/DirectNames in TLA+ (laws model-checked); for every tree of the C15 population all_used_types (as a set) must equal Subtrees(tree), rendering must terminate, Display = to_pseudocode, and a top-level struct/enum must mention its name and its direct field/variant names; panics are events no action matches.",
         "TLA+ subtree/name functions; TLC validates recorded inspection results"),
 "C12": ("5.C12", "MaxSize.tla: structural SupLen(shape) incl. fixed-capacity containers, itself model-checked equal to the maximum of Len(Enc) over maximum-containing value domains (MC_MaxSize). One event per implementing type (82 types incl. every built-in impl, heapless capacities 0/1/127/128/16383/16384, the repository's derive on structs/generics/enums with 1..129 variants): declared >= SupLen, every maximising sample fits, and declared = SupLen = attained for the kinds claimed tight.",
         "TLA+ supremum function checked against Enc; TLC validates per-type declared sizes and witnesses"),
 "C17": ("5.C17", "Dyn.tla: JsonOf(shape, value) models serde_json::to_value for the serde data model (key-sorted objects, exact integer limbs, float bit patterns) and Unambiguous is the scope predicate; for every in-scope (shape, value) TLC requires dyn-encode(json) = Enc(shape, value) = static bytes and dyn-decode(static bytes) = JsonOf; the real to_value is cross-checked against JsonOf (tool error on disagreement).",
         "TLA+ model of the JSON form + scope predicate; TLC validates recorded static/dynamic/JSON triples"),
 "C18": ("5.C18", "Totality as trace property: no panic/crash event is accepted by any action; dynamic-decoding allocation <= 256*(input+schema size+16); accepted encodings must decode, re-encode identically and be accepted exactly by Wire!Dec over ShapeOf(schema). Random schema trees over every node kind x type-correct/near-miss/unrelated JSON and valid/mutated/adversarial bytes. One known finding (zero-width sequence elements) is listed in known_findings.json with a witness.",
         "trace validation with TLC of recorded encode/decode/re-encode behaviours and measured allocation"),
}
PENDING = "check under construction in this session (see DESIGN.md section 8 for the order of construction)"
m = {
 "version": 1,
 "setup_cmd": "./setup.sh",
 "hooks": {"guard": "--cfg postcard_verif",
           "enable": "harness/.cargo/config.toml passes rustflags --cfg postcard_verif to every crate the harness workspace builds (path dependencies on /repo/source/*)",
           "baseline_off_cmd": "cd /repo && cargo test --workspace --no-fail-fast --offline",
           "source_commits": ["4a71a41", "390e524"], "add_only": True},
 "engines": [{"name": "check", "path": "check", "serves_properties": sorted(CLAIMED), "kind_free_text": "python driver: cargo-builds the harness against /repo, runs TLC model checking (spec/mc), generates traces with the harness and validates them with TLC (spec/trace)"}],
 "checks": [],
 "notes": "Model-based verification with an explicit TLA+ specification; see DESIGN.md. Exit codes: 0 held, 1 VIOLATION, 2 tool error.",
 "not_applicable": [{"property_id": i, "reason": PENDING} for i in ids if i not in CLAIMED],
}
for i in sorted(CLAIMED):
    ref, text, tech = CLAIMED[i]
    m["checks"].append({"property_id": i, "quick_cmd": f"./check {i} --tier quick", "thorough_cmd": f"./check {i} --tier thorough",
                        "evidence_file": f"evidence/{i}.json", "replay_cmd_template": f"./check {i} --replay {{path}}", "engine": "check",
                        "level_claimed": {"category": "model_checking", "text": text, "design_ref": ref},
                        "level_note": TB, "technique": tech})
json.dump(m, open(os.path.join(V, "MANIFEST.json"), "w"), indent=1)
print("claimed:", sorted(CLAIMED))
