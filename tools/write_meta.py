#!/usr/bin/env python3
"""write_meta.py: (re)generate seeded/<id>/meta.json for the seeds of a round from notes.md, confirm.json and a results table
usage: write_meta.py <round> <table.json>   table: {seed: {"caught_by": [...], "strengthening": "..."}}"""
import sys, os, json, re
rnd, table = sys.argv[1], json.load(open(sys.argv[2]))
base = os.path.join(os.path.dirname(os.path.abspath(__file__)), "..", "seeded")
for seed, row in sorted(table.items()):
    d = os.path.join(base, seed)
    notes = open(os.path.join(d, "notes.md")).read()
    paras = [p.strip().replace("\n", " ") for p in re.split(r"\n\s*\n", notes) if p.strip() and not p.strip().startswith("#")]
    conf = json.load(open(os.path.join(d, "confirm.json")))
    meta = {
        "seed": seed, "round": int(rnd), "breaks_property": seed[:3],
        "origin": f"independent sub-agent (round {rnd}) given only the property text and its own scratch worktree under /tmp",
        "summary": (paras[0] if paras else "")[:600],
        "confirmed_by_me": {"how": "tools/confirm_seed.py in a scratch worktree under /tmp: git apply; cargo test --workspace --no-fail-fast --offline; demo with and without the change", "result": conf},
        "caught_by_checks": row["caught_by"], "checked_with": "tools/try_seed.sh (git -C /repo apply; ./check <id>; git -C /repo checkout -- .)",
    }
    if row.get("strengthening"):
        meta["strengthening_needed"] = row["strengthening"]
    if row.get("note"):
        meta["note"] = row["note"]
    json.dump(meta, open(os.path.join(d, "meta.json"), "w"), indent=1)
    print(seed, row["caught_by"])
