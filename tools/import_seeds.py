#!/usr/bin/env python3
"""import_seeds.py <round> <srcroot> <pid>... : copy <srcroot>/<pid>/_seed/<k>/{patch.diff,demo.rs,notes.md} to seeded/<pid><letter>/"""
import sys, os, shutil, string
rnd, root, pids = sys.argv[1], sys.argv[2], sys.argv[3:]
base = os.path.join(os.path.dirname(os.path.abspath(__file__)), "..", "seeded")
for pid in pids:
    used = {d[len(pid):] for d in os.listdir(base) if d.startswith(pid)}
    letters = [c for c in string.ascii_lowercase if c not in used]
    sd = os.path.join(root, pid, "_seed")
    if not os.path.isdir(sd):
        print(pid, "no _seed dir"); continue
    for k in sorted(os.listdir(sd)):
        src = os.path.join(sd, k)
        if not os.path.exists(os.path.join(src, "patch.diff")):
            continue
        name = pid + letters.pop(0)
        dst = os.path.join(base, name)
        os.makedirs(dst)
        for f in ("patch.diff", "demo.rs", "notes.md"):
            if os.path.exists(os.path.join(src, f)):
                shutil.copy(os.path.join(src, f), os.path.join(dst, f))
        open(os.path.join(dst, "round"), "w").write(rnd)
        print(name, "<-", src)
