#!/usr/bin/env python3
"""Confirm a seeded change: in a scratch worktree of /repo (outside /repo and /verif) check that
(1) the patch applies, (2) the existing suite passes with it, (3) the demo fails with it, (4) the demo passes without it.
usage: confirm_seed.py <seeded/dir> ; writes <dir>/confirm.json"""
import sys, os, re, subprocess, json, shutil
d = os.path.abspath(sys.argv[1])
notes = open(os.path.join(d, "notes.md")).read()
m = re.search(r"(source/[\w\-/]+/tests/[\w\-]+\.rs)", notes)
dest = m.group(1) if m else "source/postcard/tests/seed_demo.rs"
m = re.search(r"(cargo test[^\n`]*--test\s+[\w\-]+)", notes)
cmd = m.group(1) if m else "cargo test -p postcard --offline --test seed_demo"
testname = re.search(r"--test\s+([\w\-]+)", cmd).group(1)
cands = [c for c in re.findall(r"(source/[\w\-/]+/tests/[\w\-]+\.rs)", notes) if os.path.basename(c) == testname + ".rs"]
dest = cands[0] if cands else os.path.join(os.path.dirname(dest), testname + ".rs")
if "--offline" not in cmd:
    cmd += " --offline"
wt = f"/tmp/confirm-{os.path.basename(d)}"
def sh(c, cwd=wt):
    r = subprocess.run(c, shell=True, cwd=cwd, stdout=subprocess.PIPE, stderr=subprocess.STDOUT, text=True)
    return r.returncode, r.stdout
subprocess.run(f"git -C /repo worktree remove --force {wt}", shell=True, capture_output=True)
rc, o = sh(f"git -C /repo worktree add -q --detach {wt} HEAD", cwd="/")
assert rc == 0, o
res = {"demo_dest": dest, "demo_cmd": cmd}
try:
    rc, o = sh(f"git apply {d}/patch.diff")
    res["patch_applies"] = rc == 0
    if rc != 0:
        res["apply_out"] = o[-500:]
    else:
        rc, o = sh("cargo test --workspace --no-fail-fast --offline 2>&1 | grep -E '^test result|FAILED|error' ")
        res["suite_passes_with_change"] = ("FAILED" not in o and "error" not in o and "test result: ok" in o)
        res["suite_summary"] = sorted(set(o.strip().splitlines()))[:6]
        os.makedirs(os.path.dirname(os.path.join(wt, dest)), exist_ok=True)
        shutil.copy(os.path.join(d, "demo.rs"), os.path.join(wt, dest))
        rc, o = sh(cmd)
        res["demo_fails_with_change"] = rc != 0
        res["demo_with_change_tail"] = o.strip().splitlines()[-3:]
        sh("git checkout -- source")
        os.makedirs(os.path.dirname(os.path.join(wt, dest)), exist_ok=True)
        rc, o = sh(cmd)
        res["demo_passes_without_change"] = rc == 0
        res["demo_without_change_tail"] = o.strip().splitlines()[-3:]
    res["confirmed"] = bool(res.get("patch_applies") and res.get("suite_passes_with_change") and res.get("demo_fails_with_change") and res.get("demo_passes_without_change"))
finally:
    subprocess.run(f"git -C /repo worktree remove --force {wt}", shell=True, capture_output=True)
    shutil.rmtree(wt, ignore_errors=True)
json.dump(res, open(os.path.join(d, "confirm.json"), "w"), indent=1)
print(os.path.basename(d), "CONFIRMED" if res.get("confirmed") else "NOT CONFIRMED", json.dumps({k: v for k, v in res.items() if isinstance(v, bool)}))
