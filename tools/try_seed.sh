#!/bin/sh
# usage: try_seed.sh <seeded/dir> <property id>...   apply the seeded change to /repo, run the checks, undo it
D=$(cd "$1" && pwd); shift
cd /repo && git status --porcelain | grep -q . && { echo "/repo not clean"; exit 3; }
git -C /repo apply "$D/patch.diff" || { echo "patch does not apply"; exit 3; }
for P in "$@"; do
  ( cd /verif && ./check $P > /tmp/try-$P.out 2>&1; echo "$P exit=$? $(grep -c '^VIOLATION' /tmp/try-$P.out) violation lines; $(grep -E '^(OK|TOOL-ERROR|[0-9]+ violation)' /tmp/try-$P.out | head -2 | tr '\n' ' ')" )
done
git -C /repo checkout -- . 
