#!/bin/sh
# usage: try_benign.sh <benign/dir> <property id>...   apply a property-preserving change to /repo, run the checks (all must stay quiet), undo it
D=$(cd "$1" && pwd); shift
cd /repo && git status --porcelain | grep -q . && { echo "/repo not clean"; exit 3; }
git -C /repo apply "$D/patch.diff" || { echo "patch does not apply"; exit 3; }
for P in "$@"; do
  ( cd /verif && ./check $P > /tmp/tryb-$P.out 2>&1; rc=$?; echo "$(basename $D) $P exit=$rc $(grep -E '^(OK|TOOL-ERROR|[0-9]+ violation)' /tmp/tryb-$P.out | head -1 | cut -c1-160)"; [ $rc -ne 0 ] && cp /tmp/tryb-$P.out /verif/work/benign-$(basename $D)-$P.out )
done
git -C /repo checkout -- .
