---------------------------- MODULE Link ----------------------------
(* The whole link as one system: a sender that puts COBS frames of postcard-encoded messages on a byte channel,
   a channel that may damage the byte stream (substitute, drop or insert single bytes, at most MaxFaults times)
   and hands it over in arbitrary chunks, and the documented receive loop over CobsAccumulator<N>
   (feed the chunk; while a result other than Consumed comes back, feed the remainder again).

   The accumulator is the step function Accumulator!Feed (the implementation-shaped model that MC_Acc checks edge
   by edge and that the real CobsAccumulator is bound to by edge replay and trace validation). What this module adds
   is the end-to-end meaning of C08/C09 (and of C06's "decodes back, frame by frame") in terms a user relies on:

     RightValue   a frame the channel did not touch is delivered with exactly the value that was sent
     InOrderOnce  untouched frames are delivered in sending order, none twice
     NoLoss       once everything sent has been fed, every untouched frame has been delivered - however the
                  stream was chunked, and whatever happened to the frames around it (resynchronisation at the
                  next sentinel after garbage, merged frames and over-long segments)
     QuietWhenClean  an error or overflow is only ever reported for a segment that contains damaged bytes

   Ghost bookkeeping: every byte on the wire carries the index of the message whose frame it belongs to (0 for an
   inserted byte); `taint` is the set of messages whose frame the channel touched. Destroying a sentinel (substituting
   or dropping a zero byte) joins the frame with whatever follows, so the next frame is tainted as well. Tainting is
   deliberately generous (a frame preceded by an inserted zero would in fact still be delivered): the obligations are
   owed for untainted frames only, and with 2 * MaxFaults < Len(Msgs) there always are some. *)
EXTENDS Accumulator, FiniteSets
CONSTANTS N, Target, Msgs, MaxChunk, MaxFaults, FaultBytes
VARIABLES sent,      \* number of messages whose frame has been put on the wire
          wire, wown,    \* bytes in flight and, in parallel, their owners
          taint, faults,
          window, winown, \* the chunk (or remainder) the receive loop is about to feed
          buf,           \* the accumulator's buffered bytes
          segown,        \* ghost: owners of the bytes of the current segment consumed so far
          got            \* indices of untouched messages delivered so far, in order of delivery
lvars == <<sent, wire, wown, taint, faults, window, winown, buf, segown, got>>

Frame(k) == Framed(Enc(Target, Msgs[k]), MAXRUN)
ASSUME \A k \in 1..Len(Msgs) : Len(Frame(k)) <= N       \* the sender respects the receiver's capacity (environment of C08)

LInit == /\ sent = 0 /\ wire = <<>> /\ wown = <<>> /\ taint = {0} /\ faults = 0
         /\ window = <<>> /\ winown = <<>> /\ buf = <<>> /\ segown = {} /\ got = <<>>

Send == /\ sent < Len(Msgs)
        /\ LET f == Frame(sent + 1) IN wire' = wire \o f /\ wown' = wown \o [i \in 1..Len(f) |-> sent + 1]
        /\ sent' = sent + 1
        /\ UNCHANGED <<taint, faults, window, winown, buf, segown, got>>

\* the owner of the byte that follows position i in the stream (the next frame to be sent if nothing follows yet)
NextOwner(i) == IF i < Len(wire) THEN wown[i + 1] ELSE sent + 1
Touch(i) == {wown[i]} \cup (IF wire[i] = 0 THEN {NextOwner(i)} ELSE {})
Without(s, i) == SubSeq(s, 1, i - 1) \o SubSeq(s, i + 1, Len(s))
PutAt(s, i, x) == SubSeq(s, 1, i - 1) \o <<x>> \o SubSeq(s, i, Len(s))
Substitute == /\ faults < MaxFaults
              /\ \E i \in 1..Len(wire), b \in FaultBytes :
                    /\ b # wire[i]
                    /\ wire' = [wire EXCEPT ![i] = b] /\ taint' = taint \cup Touch(i)
              /\ faults' = faults + 1
              /\ UNCHANGED <<sent, wown, window, winown, buf, segown, got>>
Drop == /\ faults < MaxFaults
        /\ \E i \in 1..Len(wire) : wire' = Without(wire, i) /\ wown' = Without(wown, i) /\ taint' = taint \cup Touch(i)
        /\ faults' = faults + 1
        /\ UNCHANGED <<sent, window, winown, buf, segown, got>>
Insert == /\ faults < MaxFaults
          /\ \E i \in 1..Len(wire), b \in FaultBytes :
                /\ wire' = PutAt(wire, i, b) /\ wown' = PutAt(wown, i, 0) /\ taint' = taint \cup {wown[i]}
          /\ faults' = faults + 1
          /\ UNCHANGED <<sent, window, winown, buf, segown, got>>

TakeChunk == /\ window = <<>> /\ wire # <<>>
             /\ \E c \in 1..MaxChunk :
                   /\ c <= Len(wire)
                   /\ window' = SubSeq(wire, 1, c) /\ winown' = SubSeq(wown, 1, c)
                   /\ wire' = SubSeq(wire, c + 1, Len(wire)) /\ wown' = SubSeq(wown, c + 1, Len(wown))
             /\ UNCHANGED <<sent, taint, faults, buf, segown, got>>

Clean(src) == Cardinality(src) = 1 /\ src \cap taint = {}
TheOne(src) == CHOOSE k \in src : TRUE
\* one pass of the documented loop: feed what is in the window, keep the remainder for the next pass
FeedStep ==
  /\ window # <<>>
  /\ LET r == Feed(N, Target, buf, window)
         k == Len(window) - Len(r.rem)
         src == segown \cup {winown[i] : i \in 1..k}
         endsZero == k > 0 /\ window[k] = 0 IN
       /\ Assert(r.kind = "Success" /\ Clean(src) => r.v = Msgs[TheOne(src)], <<"RightValue", src, r>>)
       /\ Assert(r.kind \in {"DeserError", "OverFull"} => src \cap taint # {}, <<"QuietWhenClean", src, r>>)
       /\ Assert(endsZero /\ src \cap taint = {} => r.kind = "Success" /\ Clean(src), <<"CleanSegmentDelivered", src, r>>)
       /\ buf' = r.buf /\ window' = r.rem /\ winown' = SubSeq(winown, k + 1, Len(winown))
       /\ segown' = IF endsZero THEN {} ELSE src
       /\ got' = IF r.kind = "Success" /\ Clean(src) THEN Append(got, TheOne(src)) ELSE got
  /\ UNCHANGED <<sent, wire, wown, taint, faults>>

LNext == Send \/ Substitute \/ Drop \/ Insert \/ TakeChunk \/ FeedStep
LSpec == LInit /\ [][LNext]_lvars /\ WF_lvars(TakeChunk) /\ WF_lvars(FeedStep) /\ WF_lvars(Send)

Quiescent == sent = Len(Msgs) /\ wire = <<>> /\ window = <<>>
InOrderOnce == \A i, j \in 1..Len(got) : i < j => got[i] < got[j]
NoLoss == Quiescent => {got[i] : i \in 1..Len(got)} = (1..Len(Msgs)) \ taint
BufBound == Len(buf) <= N /\ \A i \in 1..Len(buf) : buf[i] # 0
\* an untouched frame, once wholly off the wire and through the loop, has been delivered (NoLoss without waiting for the end)
Prompt == \A k \in (1..sent) \ taint :
             (\A i \in 1..Len(wown) : wown[i] # k) /\ (\A i \in 1..Len(winown) : winown[i] # k) => \E i \in 1..Len(got) : got[i] = k
\* the obligations are not vacuous: some message is always owed
SomeOwed == 2 * MaxFaults < Len(Msgs) => (1..Len(Msgs)) \ taint # {}
Delivers == <>[](Quiescent)
=======================================================================
