---------------------------- MODULE Base ----------------------------
EXTENDS Integers, Sequences, FiniteSets
Pow2(n) == 2^n
BXor(a, b) == (a + b) % 2
Byte == 0..255
\* ---- bit vectors: functions 0..W-1 -> {0,1}; bit 0 = least significant ----
BitOfBytes(bs, i) == (bs[(i \div 8) + 1] \div Pow2(i % 8)) % 2
BitsOfBytes(bs, W) == [i \in 0..(W-1) |-> IF i < 8 * Len(bs) THEN BitOfBytes(bs, i) ELSE 0]
BytesOfBits(b, W) == [j \in 1..(W \div 8) |->
   b[8*(j-1)] + 2*b[8*(j-1)+1] + 4*b[8*(j-1)+2] + 8*b[8*(j-1)+3]
   + 16*b[8*(j-1)+4] + 32*b[8*(j-1)+5] + 64*b[8*(j-1)+6] + 128*b[8*(j-1)+7]]
\* ---- BigNat as LE byte sequences (any length) ----
RECURSIVE TrimHi(_)
TrimHi(bs) == IF bs # <<>> /\ bs[Len(bs)] = 0 THEN TrimHi(SubSeq(bs, 1, Len(bs)-1)) ELSE bs
\* fits in a TLC int (< 2^24 is all we ever need as an int)
IsSmall(bs) == Len(TrimHi(bs)) <= 3
ToInt(bs) == LET t == TrimHi(bs) IN
   (IF Len(t) >= 1 THEN t[1] ELSE 0) + (IF Len(t) >= 2 THEN 256 * t[2] ELSE 0) + (IF Len(t) >= 3 THEN 65536 * t[3] ELSE 0)
\* ---- UTF-8 well-formedness (Unicode Table 3-7) ----
In(x, lo, hi) == lo <= x /\ x <= hi
Cont(x) == In(x, 128, 191)
\* length of the well-formed scalar starting at s[i], or 0 if ill-formed/truncated
ScalarLen(s, i) ==
  LET n == Len(s)  a == s[i]
      b == IF i+1 <= n THEN s[i+1] ELSE 0
      c == IF i+2 <= n THEN s[i+2] ELSE 0
      d == IF i+3 <= n THEN s[i+3] ELSE 0
  IN IF a <= 127 THEN 1
     ELSE IF In(a, 194, 223) THEN (IF i+1 <= n /\ Cont(b) THEN 2 ELSE 0)
     ELSE IF a = 224 THEN (IF i+2 <= n /\ In(b, 160, 191) /\ Cont(c) THEN 3 ELSE 0)
     ELSE IF In(a, 225, 236) \/ In(a, 238, 239) THEN (IF i+2 <= n /\ Cont(b) /\ Cont(c) THEN 3 ELSE 0)
     ELSE IF a = 237 THEN (IF i+2 <= n /\ In(b, 128, 159) /\ Cont(c) THEN 3 ELSE 0)
     ELSE IF a = 240 THEN (IF i+3 <= n /\ In(b, 144, 191) /\ Cont(c) /\ Cont(d) THEN 4 ELSE 0)
     ELSE IF In(a, 241, 243) THEN (IF i+3 <= n /\ Cont(b) /\ Cont(c) /\ Cont(d) THEN 4 ELSE 0)
     ELSE IF a = 244 THEN (IF i+3 <= n /\ In(b, 128, 143) /\ Cont(c) /\ Cont(d) THEN 4 ELSE 0)
     ELSE 0
RECURSIVE Utf8From(_, _)
Utf8From(s, i) == IF i > Len(s) THEN TRUE
                  ELSE LET k == ScalarLen(s, i) IN IF k = 0 THEN FALSE ELSE Utf8From(s, i + k)
Utf8Valid(s) == Utf8From(s, 1)
\* exactly one scalar
OneScalar(s) == s # <<>> /\ ScalarLen(s, 1) = Len(s)
\* UTF-8 encoding of a code point (RFC 3629), and the set of Unicode scalar values
Utf8Enc(cp) == IF cp < 128 THEN <<cp>>
  ELSE IF cp < 2048 THEN <<192 + (cp \div 64), 128 + (cp % 64)>>
  ELSE IF cp < 65536 THEN <<224 + (cp \div 4096), 128 + ((cp \div 64) % 64), 128 + (cp % 64)>>
  ELSE <<240 + (cp \div 262144), 128 + ((cp \div 4096) % 64), 128 + ((cp \div 64) % 64), 128 + (cp % 64)>>
IsScalar(cp) == (cp >= 0 /\ cp < 55296) \/ (cp > 57343 /\ cp < 1114112)
=====================================================================
