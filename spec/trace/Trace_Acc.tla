---------------------------- MODULE Trace_Acc ----------------------------
(* Trace validation of CobsAccumulator events (C08, C09). Every recorded feed call
   (state before, chunk) -> (result kind, value, remainder, state after, borrowed offsets) must be the
   transition Accumulator!Feed prescribes. For stream traces (ghost = 1) the specification also tracks
   the ghost "current segment" and evaluates the per-edge obligations of C08/C09 on streams far beyond the
   bounds of MC_Acc. *)
EXTENDS Accumulator, Json, IOUtils
Rec == ndJsonDeserialize(IOEnv.TRACE)
VARIABLES l, g          \* g: ghost [seg, over, fit, cap]
Has(r, f) == f \in DOMAIN r
Bad(cs) == LET F[i \in 0..Len(cs)] == IF i = 0 THEN <<>> ELSE IF cs[i][1] THEN F[i-1] ELSE Append(F[i-1], cs[i][2]) IN F[Len(cs)]
Verdict(cs, exp) == LET b == Bad(cs) IN [ok |-> b = <<>>, exp |-> [bad |-> b, want |-> exp]]

JudgeFeed(e) ==
  LET r == Feed(e.n, e.target, e.pre, e.chunk)
      lv == IF r.kind = "Success" THEN SliceLeaves(r.tk) ELSE <<>> IN
  Verdict(<< <<e.kind # "panic", "panic">>,
             <<~Has(e, "setup_failed"), "feed">>,
             <<e.pre_idx = Len(e.pre) /\ e.idx = Len(e.post) /\ e.idx <= e.n, "idx">>,
             <<e.kind = r.kind /\ (r.kind = "Success" => Has(e, "value") /\ e.value = r.v), "feed">>,
             <<e.post = r.buf, "state">>,
             <<e.rem_len = Len(r.rem) /\ e.rem_inplace = 1, "conserve">>,
             <<(r.kind = "Success" /\ e.mode = "feed_ref") => e.leaves = lv, "leaves">>,
             <<(e.ghost = 1) => EdgeOK(g.cap, e.target, g.fit, e.chunk, g.seg, g.over, r), "ghost">> >>,
          [kind |-> r.kind, v |-> r.v, rem_len |-> Len(r.rem), post |-> r.buf, branch |-> r.br, leaves |-> lv,
           \* which environment the step belongs to: C08 quantifies over streams whose segments fit, C09 over all
           env |-> IF (IF e.ghost = 1 THEN g.fit ELSE FitsFrom(e.n, Len(e.pre), e.chunk)) THEN "fit" ELSE "nofit"])

Judge(e) ==
  CASE e.op = "feed" -> JudgeFeed(e)
    [] e.op = "acc_reset" -> Verdict(<<>>, 0)
    [] e.op = "feed_loop" -> Verdict(<< <<e.gave_up = 0 /\ e.iters <= 2 * e.chunk_len + 2, "progress">> >>, [max_iters |-> 2 * e.chunk_len + 2])
    [] OTHER -> Verdict(<< <<FALSE, "crash">> >>, "no action of the specification matches this event")

Init == l = 1 /\ g = [seg |-> <<>>, over |-> FALSE, fit |-> FALSE, cap |-> 0]
Next == /\ l <= Len(Rec) /\ l' = l + 1
        /\ LET e == Rec[l]  j == Judge(e) IN
             /\ IF j.ok THEN TRUE ELSE PrintT(<<"MISMATCH", l, ToJson(j.exp)>>)
             /\ g' = IF e.op = "acc_reset" THEN [seg |-> <<>>, over |-> FALSE, fit |-> FitsFrom(e.n, 0, e.stream), cap |-> e.n]
                     ELSE IF e.op = "feed" /\ e.ghost = 1 /\ e.kind # "panic" THEN
                          \* continue from the model's transition (the observed one was compared with it above)
                          LET r == Feed(e.n, e.target, e.pre, e.chunk)  ns == NextSeg(e.chunk, g.seg, g.over, r)
                          IN [g EXCEPT !.seg = ns.seg, !.over = ns.over]
                     ELSE g
Spec == Init /\ [][Next]_<<l, g>>
Consumed == TLCGet("stats").diameter - 1 = Len(Rec)
=============================================================================
