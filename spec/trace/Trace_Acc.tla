---------------------------- MODULE Trace_Acc ----------------------------
(* Trace validation of CobsAccumulator events (C08, C09). Every recorded feed call
   (state before, chunk) -> (result kind, value, remainder, state after, borrowed offsets) must be the
   transition Accumulator!Feed prescribes. For stream traces (ghost = 1) the specification also tracks
   the ghost "current segment" and evaluates the per-edge obligations of C08/C09 on streams far beyond the
   bounds of MC_Acc. *)
EXTENDS Accumulator, Json, IOUtils
Rec == ndJsonDeserialize(IOEnv.TRACE)
VARIABLES l, g          \* g: ghost [seg, over, fit, cap]
Has(r, f) == f \in DOMAIN r
Bad(cs) == LET F[i \in 0..Len(cs)] == IF i = 0 THEN <<>> ELSE IF cs[i][1] THEN F[i-1] ELSE Append(F[i-1], cs[i][2]) IN F[Len(cs)]
Verdict(cs, exp) == LET b == Bad(cs) IN [ok |-> b = <<>>, exp |-> [bad |-> b, want |-> exp]]

\* what the call showed: o = [kind, v, rem, buf]
Obs(e) == [kind |-> e.kind, v |-> IF Has(e, "value") THEN e.value ELSE 0,
           rem |-> IF e.rem_len >= 0 /\ e.rem_len <= Len(e.chunk) THEN SubSeq(e.chunk, Len(e.chunk) - e.rem_len + 1, Len(e.chunk)) ELSE <<>>,
           buf |-> e.post]
\* ghost of an edge event (ghost = 0): the harness brought the accumulator into state pre by feeding pre (no zero, fits)
\* to a fresh accumulator, so the current segment so far is pre and no overflow has been reported in it
GhostOf(e) == IF e.ghost = 1 THEN g ELSE [seg |-> e.pre, over |-> FALSE, fit |-> FitsFrom(e.n, Len(e.pre), e.chunk), cap |-> e.n]
JudgeFeed(e) ==
  LET r == Feed(e.n, e.target, e.pre, e.chunk)
      o == Obs(e)
      gh == GhostOf(e)
      \* where the borrowed leaves of a delivered value lie: in the accumulator's buffer, at the positions of the decoded frame
      \* that was actually buffered (pre, as read through the hook) - in the rest of an over-long segment this is not the ghost's
      \* segment, and nothing is owed there except that a result that is delivered borrows from the right places
      f == IF o.kind = "Success" THEN FrameOutcome(e.target, e.pre \o SubSeq(e.chunk, 1, Len(e.chunk) - Len(o.rem))) ELSE [kind |-> "none", tk |-> <<>>]
      lv == IF f.kind = "Success" THEN SliceLeaves(f.tk) ELSE <<>>
      sameAsModel == e.kind = r.kind /\ e.post = r.buf /\ e.rem_len = Len(r.rem) IN
  Verdict(<< <<e.kind # "panic", "panic">>,
             <<~Has(e, "setup_failed"), "feed">>,
             <<e.pre_idx = Len(e.pre) /\ e.idx = Len(e.post) /\ e.idx <= e.n, "idx">>,
             <<e.rem_len >= 0 /\ e.rem_len <= Len(e.chunk) /\ e.rem_inplace = 1, "conserve">>,
             \* the per-call obligations of C08/C09 on what was observed (not on the model's prediction)
             <<EdgeOKObs(gh.cap, e.target, gh.fit, e.chunk, gh.seg, gh.over, o), "edge">>,
             <<(o.kind = "Success" /\ e.mode = "feed_ref") => e.leaves = lv, "leaves">> >>,
          [kind |-> r.kind, v |-> r.v, rem_len |-> Len(r.rem), post |-> r.buf, branch |-> r.br, leaves |-> lv,
           \* agreement with the implementation-shaped step function is reported but is not an obligation of the properties
           same_as_model |-> sameAsModel,
           \* which environment the step belongs to: C08 quantifies over streams whose segments fit, C09 over all
           env |-> IF gh.fit THEN "fit" ELSE "nofit"])

\* end of a replayed behaviour of MC_Link: the untouched messages, in sending order, are among the values delivered
\* (anything else delivered stems from damaged segments, which the properties leave open); an undamaged stream delivers
\* exactly what was sent
RECURSIVE IsSubseqFrom(_, _, _, _)
IsSubseqFrom(a, i, b, j) == IF i > Len(a) THEN TRUE ELSE IF j > Len(b) THEN FALSE
                            ELSE IF a[i] = b[j] THEN IsSubseqFrom(a, i + 1, b, j + 1) ELSE IsSubseqFrom(a, i, b, j + 1)
JudgeLink(e) ==
  LET owed == [i \in 1..Len(e.clean) |-> e.msgs[e.clean[i]]] IN
  Verdict(<< <<IsSubseqFrom(owed, 1, e.delivered, 1), "link">>,
             <<e.faults = 0 => e.delivered = e.msgs, "link">> >>,
          [owed |-> owed, env |-> IF FitsFrom(e.n, 0, e.stream) THEN "fit" ELSE "nofit"])

Judge(e) ==
  CASE e.op = "feed" -> JudgeFeed(e)
    [] e.op = "link_done" -> JudgeLink(e)
    [] e.op = "acc_reset" -> Verdict(<<>>, 0)
    [] e.op = "feed_loop" -> Verdict(<< <<e.gave_up = 0 /\ e.iters <= 2 * e.chunk_len + 2, "progress">> >>, [max_iters |-> 2 * e.chunk_len + 2])
    [] OTHER -> Verdict(<< <<FALSE, "crash">> >>, "no action of the specification matches this event")

Init == l = 1 /\ g = [seg |-> <<>>, over |-> FALSE, fit |-> FALSE, cap |-> 0]
Next == /\ l <= Len(Rec) /\ l' = l + 1
        /\ LET e == Rec[l]  j == Judge(e) IN
             /\ IF j.ok THEN TRUE ELSE PrintT(<<"MISMATCH", l, ToJson(j.exp)>>)
             /\ g' = IF e.op = "acc_reset" THEN [seg |-> <<>>, over |-> FALSE, fit |-> FitsFrom(e.n, 0, e.stream), cap |-> e.n]
                     ELSE IF e.op = "feed" /\ e.ghost = 1 /\ e.kind # "panic" THEN
                          \* continue from what the implementation consumed and reported
                          LET ns == NextSeg(e.chunk, g.seg, g.over, Obs(e))
                          IN [g EXCEPT !.seg = ns.seg, !.over = ns.over]
                     ELSE g
Spec == Init /\ [][Next]_<<l, g>>
Consumed == TLCGet("stats").diameter - 1 = Len(Rec)
=============================================================================
