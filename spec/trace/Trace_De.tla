---------------------------- MODULE Trace_De ----------------------------
(* Trace validation for C04: (1) every call the real Deserializer makes on a recording slice flavour
   (pop / try_take_n / size_hint / finalize, with results) is validated step by step against the cursor
   machine DePipe - a take that succeeds with ct > remaining, fails with ct <= remaining, or returns a block
   at the wrong place is rejected whatever the final value was; the final result must equal Wire!Dec;
   (2) allocation while decoding into concrete std collections is bounded by the element size times the
   bytes available (input and scratch), whatever lengths the input claims. *)
EXTENDS Wire, DePipe, Json, IOUtils
Rec == ndJsonDeserialize(IOEnv.TRACE)
VARIABLES l, st           \* st: [input, pos] of the behaviour being replayed
Has(r, f) == f \in DOMAIN r
Bad(cs) == LET F[i \in 0..Len(cs)] == IF i = 0 THEN <<>> ELSE IF cs[i][1] THEN F[i-1] ELSE Append(F[i-1], cs[i][2]) IN F[Len(cs)]
V(cs, want) == LET b == Bad(cs) IN [ok |-> b = <<>>, exp |-> [bad |-> b, want |-> want]]
AllocBound(esz, avail) == 8 * esz * (avail + 16) + 256        \* + a constant for fixed overheads (error values etc.)

\* returns [v |-> verdict, st |-> next state]
Step(e) ==
  CASE e.op = "df_start" -> [v |-> V(<<>>, 0), st |-> [input |-> e.input, pos |-> 0]]
    [] e.op = "df_pop" ->
         LET r == SlPop(st.input, st.pos) IN
         [v |-> V(<< <<IF r.ok THEN e.res = r.byte ELSE e.res = -1, "cursor">> >>, [res |-> IF r.ok THEN r.byte ELSE -1, pos |-> st.pos]),
          st |-> [st EXCEPT !.pos = r.pos]]
    [] e.op = "df_take" ->
         LET r == SlTake(st.input, st.pos, e.ct) IN
         [v |-> V(<< <<IF r.ok THEN e.ok = 1 /\ e.off = r.off /\ e.len = r.len ELSE e.ok = 0, "cursor">> >>,
                  [ok |-> IF r.ok THEN 1 ELSE 0, off |-> st.pos, remaining |-> Len(st.input) - st.pos]),
          st |-> [st EXCEPT !.pos = r.pos]]
    \* a size hint is a promise about how much can still be read: "unknown" (-1) or no more than what remains
    \* (the allocation bound of C04 rests on it never exceeding the bytes available; exactness is not required)
    [] e.op = "df_hint" -> [v |-> V(<< <<e.res = -1 \/ (e.res >= 0 /\ e.res <= SlHint(st.input, st.pos)), "cursor">> >>, [res_at_most |-> SlHint(st.input, st.pos)]), st |-> st]
    [] e.op = "df_fin" ->
         LET f == SlFinal(st.input, st.pos) IN
         [v |-> V(<< <<e.off = f.off /\ e.len = f.len, "cursor">> >>, f), st |-> st]
    [] e.op = "df_end" ->          \* the behaviour's overall result against Wire!Dec
         LET r == Dec(e.shape, st.input, 0) IN
         [v |-> V(<< <<~(Has(e.res, "err") /\ e.res.err = "panic"), "panic">>,
                     <<IF r.ok THEN e.res.ok = 1 /\ e.res.value = r.v /\ e.res.used = r.pos ELSE e.res.ok = 0 /\ e.res.err = r.err, "dec">> >>,
                  IF r.ok THEN [ok |-> 1, value |-> r.v, used |-> r.pos] ELSE [ok |-> 0, err |-> r.err]),
          st |-> st]
    [] e.op = "alloc" ->
         LET b == AllocBound(e.esz, e.input_len + e.scratch_len) IN
         [v |-> V(<< <<e.res # "panic", "panic">>, <<e.assert = 1 => e.alloc_peak <= b, "alloc">> >>, [bound |-> b, peak |-> e.alloc_peak]), st |-> st]
    [] OTHER -> [v |-> V(<< <<FALSE, "crash">> >>, "no action of the specification matches this event"), st |-> st]

Init == l = 1 /\ st = [input |-> <<>>, pos |-> 0]
Next == /\ l <= Len(Rec) /\ l' = l + 1
        /\ LET s == Step(Rec[l]) IN
             /\ IF s.v.ok THEN TRUE ELSE PrintT(<<"MISMATCH", l, ToJson(s.v.exp)>>)
             /\ st' = s.st
Spec == Init /\ [][Next]_<<l, st>>
Consumed == TLCGet("stats").diameter - 1 = Len(Rec)
=============================================================================
