---------------------------- MODULE Trace_Ser ----------------------------
(* Trace validation of serialisation events (C05, C06 encoder side, C10 encoder side, C20): one batch event
   per (value, flavour stack): the outcome of the real code for every storage and every capacity tried,
   judged against SerPipe!Full / the capacity threshold. *)
EXTENDS SerPipe, Json, IOUtils
Rec == ndJsonDeserialize(IOEnv.TRACE)
VARIABLE l
Has(r, f) == f \in DOMAIN r
AlgOf(j) == [width |-> j.width, poly |-> j.poly, init |-> j.init, refin |-> j.refin = 1, refout |-> j.refout = 1, xorout |-> j.xorout]
LayerOf(j) == IF j.l = "crc" THEN [l |-> "crc", alg |-> AlgOf(j.alg), s |-> j.s] ELSE [l |-> "cobs"]
StackOf(js) == [i \in 1..Len(js) |-> LayerOf(js[i])]
Sig(js) == IF js = <<>> THEN "plain" ELSE IF Len(js) = 2 THEN "crc+cobs" ELSE js[1].l
\* the specification's model of each logged algorithm must reproduce the catalogue check value
AlgsOK(js) == \A i \in 1..Len(js) : js[i].l = "crc" => CrcLE(AlgOf(js[i].alg), Check9, js[i].s) = js[i].alg.check
SetToSortedTags(S) == LET order == <<"crcmodel", "panic", "thr", "bytes", "canary", "size", "user", "undo", "iothr", "iobytes">> IN
   SelectSeq(order, LAMBDA t : t \in S)

\* tags of one outcome o against the functional output full
OutTags(o, full) ==
  LET bounded == o.storage \in {"slice", "hvec"}
      fits == ~bounded \/ o.cap >= Len(full)
      r == o.res IN
  IF Has(r, "err") /\ r.err = "panic" THEN {"panic"}
  ELSE IF o.storage = "undo" THEN {}          \* judged in UndoTags (needs the value)
  ELSE IF o.storage \in {"io", "eio"} THEN
       \* a byte writer with room for cap bytes: everything or an error; what it received is a prefix of the output
       (IF o.cap >= Len(full) THEN (IF r.ok = 1 /\ r.bytes = full THEN {} ELSE {"iobytes"})
        ELSE IF r.ok # 0 THEN {"iothr"}
        ELSE IF Len(r.written) <= o.cap /\ r.written = SubSeq(full, 1, Len(r.written)) THEN {} ELSE {"iobytes"})
  ELSE IF o.storage = "size" THEN (IF r.ok = 1 /\ r.size = Len(full) THEN {} ELSE {"size"})
  ELSE IF ~fits THEN (IF r.ok = 0 /\ r.err = "BufferFull" THEN {} ELSE {"thr"})
  ELSE IF r.ok # 1 THEN {"thr"}
  ELSE (IF r.bytes = full THEN {} ELSE {"bytes"})
       \cup (IF o.storage = "slice" /\ ~(r.front = 1 /\ r.tail_ok = 1 /\ r.len = Len(full)) THEN {"canary"} ELSE {})

CallBytes(c) == IF c[1] = "p" THEN <<c[2]>> ELSE IF c[1] = "e" THEN c[2] ELSE <<>>
RECURSIVE CatCalls(_, _)
CatCalls(cs, i) == IF i > Len(cs) THEN <<>> ELSE CallBytes(cs[i]) \o CatCalls(cs, i + 1)

Judge(e) ==
  CASE e.op = "serb" ->
         LET full == TLCEval(Full(StackOf(e.stack), Enc(e.shape, e.value)))          \* computed once per event
             T == TLCEval([i \in 1..Len(e.outs) |-> OutTags(e.outs[i], full)])
             undo == {i \in 1..Len(e.outs) : e.outs[i].storage = "undo"}
             \* undoing the layers in reverse order recovers the value and leaves nothing over
             undoBad == \E i \in undo : LET r == e.outs[i].res IN ~(r.ok = 1 /\ r.value = e.value /\ r.rest = 0)
             tags == UNION {T[i] : i \in 1..Len(e.outs)} \cup (IF AlgsOK(e.stack) THEN {} ELSE {"crcmodel"}) \cup (IF undoBad THEN {"undo"} ELSE {})
             firstbad == IF \A i \in 1..Len(e.outs) : T[i] = {} THEN 0 ELSE CHOOSE i \in 1..Len(e.outs) : T[i] # {} /\ \A k \in 1..(i-1) : T[k] = {}
         IN [ok |-> tags = {}, exp |-> [bad |-> SetToSortedTags(tags), want |-> [sig |-> Sig(e.stack), full |-> full, first_bad_out |-> firstbad]]]
    [] e.op = "userflavor" ->
         LET full == TLCEval(Full(StackOf(e.stack), Enc(e.shape, e.value)))
             n == Len(e.calls)
             writes(k) == \A i \in 1..k : e.calls[i][1] \in {"p", "e"}
             fits == e.room < 0 \/ e.room >= Len(full)
             good == IF ~AlgsOK(e.stack) THEN FALSE
                     ELSE IF fits /\ e.fin_fail = 0 THEN
                          \* exactly the bytes of Full, in order, through whichever methods; then finalize
                          /\ e.status = "ok" /\ n >= 1 /\ e.calls[n] = <<"f">> /\ writes(n - 1) /\ CatCalls(e.calls, 1) = full
                     ELSE IF fits THEN
                          \* the user's finalize fails: all bytes delivered, the failure surfaces as an error (mapped to buffer-full)
                          /\ e.status \notin {"ok", "panic"} /\ n >= 1 /\ e.calls[n] = <<"f">> /\ writes(n - 1) /\ CatCalls(e.calls, 1) = full
                     ELSE \* the flavour refuses a write: an error, a prefix delivered, nothing after the refusal, no finalize
                          /\ e.status \notin {"ok", "panic"} /\ n >= 1 /\ e.calls[n][1] = "x" /\ writes(n - 1)
                          /\ LET got == CatCalls(e.calls, 1) IN
                               /\ Len(got) <= e.room /\ Len(got) <= Len(full) /\ got = SubSeq(full, 1, Len(got))
                               /\ Len(got) + e.calls[n][2] > e.room
         IN [ok |-> good, exp |-> [bad |-> IF good THEN <<>> ELSE <<"user">>, want |-> [sig |-> Sig(e.stack), full |-> full]]]
    [] e.op = "cobs_ops" ->
         \* every call the COBS flavour made on a recording storage of capacity cap. Which calls it makes (single pushes or
         \* runs, when it patches a code byte) is its own business; what the statements fix is that it only ever indexes bytes
         \* it has already produced (a fixed slice storage would otherwise be read or written outside the output), that with
         \* enough capacity the storage ends up holding exactly the frame, and that otherwise the result is buffer-full.
         LET st == StackOf(e.stack)
             x == TLCEval(IF Len(st) = 2 THEN LayerApply(st[1], Enc(e.shape, e.value), 254) ELSE Enc(e.shape, e.value))    \* what reaches the COBS layer
             full == Framed(x, 254)
             n == Len(e.calls)
             inBounds == \A i \in 1..n : e.calls[i][1] \in {"patch", "read"} => (e.calls[i][2] >= 0 /\ e.calls[i][2] < e.calls[i][3])
             good == /\ AlgsOK(e.stack) /\ inBounds /\ ~(Has(e.res, "err") /\ e.res.err = "panic")
                     /\ IF e.cap >= Len(full)
                        THEN n >= 1 /\ e.calls[n][1] = "fin" /\ e.calls[n][2] = full /\ e.res.ok = 1 /\ e.res.bytes = full
                        ELSE e.res.ok = 0 /\ e.res.err = "BufferFull"
         IN [ok |-> good, exp |-> [bad |-> IF good THEN <<>> ELSE <<"cobs_ops">>, want |-> [sig |-> Sig(e.stack), full |-> full, in_bounds |-> inBounds]]]
    [] OTHER -> [ok |-> FALSE, exp |-> [bad |-> <<"crash">>, want |-> "no action of the specification matches this event"]]

Init == l = 1
Next == /\ l <= Len(Rec) /\ l' = l + 1
        /\ LET j == Judge(Rec[l]) IN IF j.ok THEN TRUE ELSE PrintT(<<"MISMATCH", l, ToJson(j.exp)>>)
Spec == Init /\ [][Next]_l
Consumed == TLCGet("stats").diameter - 1 = Len(Rec)
=============================================================================
