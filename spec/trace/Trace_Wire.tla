---------------------------- MODULE Trace_Wire ----------------------------
(* Trace validation of wire-format events recorded from the real postcard code (C01, C02, C03, C04, C13).
   One event per line; every event is judged against Wire!Enc / Wire!Dec. A disagreement is printed as
   MISMATCH with the line number and the outcome the specification prescribes; validation continues. *)
EXTENDS Wire, Json, IOUtils
Rec == ndJsonDeserialize(IOEnv.TRACE)
VARIABLE l
Has(r, f) == f \in DOMAIN r
DecOut(r) == IF r.ok THEN [ok |-> 1, value |-> r.v, used |-> r.pos] ELSE [ok |-> 0, err |-> r.err]
ResAgrees(res, r, entry) ==
  IF r.ok THEN /\ Has(res, "ok") /\ res.ok = 1 /\ Has(res, "value") /\ res.value = r.v
               /\ Has(res, "used") /\ res.used = (IF entry = "from_bytes" THEN -1 ELSE r.pos)
  ELSE /\ Has(res, "ok") /\ res.ok = 0 /\ Has(res, "err")
       /\ (r.err = "Custom" \/ res.err = r.err)       \* kinds the statement does not name (variant index out of range): rejection suffices
IsReader(entry) == entry \in {"from_io", "from_eio"}
RECURSIVE ConcatAll(_)
ConcatAll(ss) == IF ss = <<>> THEN <<>> ELSE Head(ss) \o ConcatAll(Tail(ss))
Compact(r) == IF r.ok THEN <<1, r.v, r.pos>> ELSE <<0, r.err>>

\* failing conjuncts as tags; the driver maps tags to properties
Bad(cs) == LET F[i \in 0..Len(cs)] == IF i = 0 THEN <<>> ELSE IF cs[i][1] THEN F[i-1] ELSE Append(F[i-1], cs[i][2]) IN F[Len(cs)]
IsPanic(res) == Has(res, "err") /\ res.err = "panic"
Verdict(cs, exp) == LET b == Bad(cs) IN [ok |-> b = <<>>, exp |-> [bad |-> b, want |-> exp]]

Judge(e) ==
  CASE e.op = "rt" ->
         LET b == Enc(e.shape, e.value) IN
         IF ~Has(e, "bytes") THEN Verdict(<< <<FALSE, "enc">>, <<FALSE, "rt">> >>, [bytes |-> b])
         ELSE LET r == Dec(e.shape, e.bytes \o e.tail, 0)
                  used == IF e.dec = "from_bytes" THEN -1 ELSE Len(e.bytes) IN
              Verdict(<< <<e.bytes = b, "enc">>,
                         <<Has(e.res, "value") /\ e.res.ok = 1 /\ e.res.value = e.value /\ e.res.used = used, "rt">>,
                         <<ResAgrees(e.res, r, e.dec), "dec">>,
                         <<~IsPanic(e.res), "panic">> >>,
                      [bytes |-> b, res |-> DecOut(r)])
    [] e.op = "dec" ->
         LET r == Dec(e.shape, e.input, 0)
             lv == IF r.ok THEN (IF IsReader(e.dec) THEN ReaderLeaves(r.tk) ELSE SliceLeaves(r.tk)) ELSE <<>> IN
         Verdict(<< <<ResAgrees(e.res, r, e.dec), "dec">>,
                    <<~IsPanic(e.res), "panic">>,
                    \* slice decoding: every borrowed leaf at the position it was encoded; reader decoding: disjoint parts of the
                    \* scratch buffer (where in it, and which non-borrowed blocks pass through it, is not prescribed; the harness's
                    \* scratch is the input length + 16 bytes)
                    <<r.ok => (IF IsReader(e.dec) THEN ReaderLeavesOK(e.leaves, r.tk, 0, IF Has(e, "avail") THEN e.avail ELSE Len(e.input) + 16) ELSE e.leaves = lv), "leaves">>,
                    <<r.ok => e.transient = 0, "leaves">>,
                    \* a sequence's size hint (what collection visitors pre-allocate from) never exceeds the bytes available
                    <<Has(e, "hints") => \A i \in 1..Len(e.hints) : e.hints[i][1] = 0 => e.hints[i][2] <= 4 * e.avail + 64, "hint">> >>,
                 [res |-> DecOut(r), leaves |-> lv])
    [] e.op = "decb" ->
         LET exp == [b \in 1..256 |-> Compact(Dec(e.shape, Append(e.prefix, b - 1), 0))] IN
         Verdict(<< <<e.outs = exp, "decb">> >>,
                 [first_bad |-> IF e.outs = exp THEN 0 ELSE CHOOSE b \in 1..256 : Len(e.outs) < b \/ e.outs[b] # exp[b]])
    [] e.op = "intb" ->          \* entire domain of a 16-bit integer encoder: 256 values for one high byte
         LET exp == [lo \in 1..256 |-> LET v == <<lo - 1, e.hi>>  b == Enc(e.shape, v) IN <<b, v, Len(b)>>] IN
         Verdict(<< <<\A i \in 1..256 : Len(e.outs[i]) = 3 /\ e.outs[i][1] = exp[i][1], "enc">>,
                    <<e.outs = exp, "rt">> >>,
                 [first_bad |-> IF e.outs = exp THEN 0 ELSE CHOOSE b \in 1..256 : Len(e.outs) < b \/ e.outs[b] # exp[b]])
    [] e.op = "charb" ->         \* a block of 256 code points: every Unicode scalar value encodes as its one-scalar string and comes back
         LET cp(i) == e.blk * 256 + i - 1
             exp == [i \in 1..256 |-> IF IsScalar(cp(i)) THEN (LET u == Utf8Enc(cp(i)) IN << <<Len(u)>> \o u, cp(i), Len(u) + 1 >>) ELSE <<>>]
             model == \A i \in 1..256 : IsScalar(cp(i)) => OneScalar(Utf8Enc(cp(i)))
         IN Verdict(<< <<model, "specmodel">>,
                       <<\A i \in 1..256 : IsScalar(cp(i)) => (Len(e.outs[i]) = 3 /\ e.outs[i][1] = exp[i][1]), "enc">>,
                       <<e.outs = exp, "rt">> >>,
                    [first_bad |-> IF e.outs = exp THEN 0 ELSE CHOOSE b \in 1..256 : Len(e.outs) < b \/ e.outs[b] # exp[b]])
    [] e.op = "fixb" ->          \* entire 16-bit domain of a fixed-width adapter: 256 outcomes for one high byte
         LET exp == [lo \in 1..256 |-> <<Enc(e.shape, <<lo - 1, e.hi>>), <<lo - 1, e.hi>>, 2>>] IN
         Verdict(<< <<e.outs = exp, "fixb">> >>,
                 [first_bad |-> IF e.outs = exp THEN 0 ELSE CHOOSE b \in 1..256 : Len(e.outs) < b \/ e.outs[b] # exp[b]])
    [] e.op = "rtt" ->           \* a concrete Rust type: the value given and the value decoded as serde call trees
         IF Has(e, "err") THEN Verdict(<< <<FALSE, "enc">>, <<FALSE, "rt">> >>, [err |-> e.err])
         ELSE LET b == EncTree(e.tree) IN
              Verdict(<< <<e.bytes = b, "enc">>,
                         <<e.decoded_tree = e.tree /\ e.used = (IF e.dec = "from_bytes" THEN -1 ELSE Len(e.bytes)), "rt">> >>,
                      [bytes |-> b])
    [] e.op = "seqhdr" ->
         LET c == Canon(BitsOfBytes(e.n, 64), 64) IN
         Verdict(<< <<e.bytes = c /\ e.err # "none", "seqhdr">> >>, [bytes |-> c, err |-> "the harness type's own error"])
    [] e.op = "sequnk" ->
         \* refused with an error instead of being mis-framed: nothing of the sequence reaches the output
         Verdict(<< <<e.bytes = <<>> /\ e.err # "none" /\ e.err # "panic", "sequnk">> >>, [bytes |-> <<>>, err |-> "an error (SeqLengthUnknown today)"])
    [] e.op = "collected" ->
         \* collect_seq / collect_map: with an exact size hint the count and the elements, otherwise refused, nothing emitted
         LET RECURSIVE Twice(_)
             Twice(x) == IF x = <<>> THEN <<>> ELSE <<Head(x), Head(x)>> \o Twice(Tail(x))
             b == SmallVar(Len(e.items)) \o (IF e.map = 1 THEN Twice(e.items) ELSE e.items) IN
         IF e.hint = 0 THEN Verdict(<< <<e.bytes = b /\ e.err = "none", "enc">> >>, [bytes |-> b, err |-> "none"])
         \* (an encoder that found out the length some other way and framed the sequence correctly would not be mis-framing it)
         ELSE Verdict(<< <<(e.bytes = <<>> /\ e.err # "none" /\ e.err # "panic") \/ (e.bytes = b /\ e.err = "none"), "sequnk">> >>,
                      [bytes |-> <<>>, err |-> "an error (SeqLengthUnknown today), or the correct framing"])
    [] e.op = "cstr" ->
         IF e.fail_at >= 0 THEN Verdict(<< <<e.res.ok = 0 /\ e.res.err # "panic", "cstr">> >>, [ok |-> 0, err |-> "an error (CollectStr today)"])
         ELSE LET b == Enc([k |-> "str"], ConcatAll(e.pieces)) \o <<e.follow>> IN
              Verdict(<< <<e.res.ok = 1 /\ Has(e.res, "bytes") /\ e.res.bytes = b, "cstr">>,
                         \* C01: a Display-collected string is a str of the data model; it comes back whole, then the next field
                         <<e.res.ok = 1 => (Has(e.res, "back") /\ e.res.back.ok = 1 /\ e.res.back.s = ConcatAll(e.pieces)
                                            /\ e.res.back.f = e.follow /\ e.res.back.rest = 0), "rt">> >>,
                      [ok |-> 1, bytes |-> b, back |-> [s |-> ConcatAll(e.pieces), f |-> e.follow, rest |-> 0]])
    [] e.op = "refused" ->
         Verdict(<< <<e.res.ok = 0 /\ Has(e.res, "err") /\ e.res.err # "panic", "refused">> >>, [ok |-> 0, err |-> "an error (WontImplement today)"])
    [] OTHER -> Verdict(<< <<FALSE, "crash">> >>, "no action of the specification matches this event")

Init == l = 1
Next == /\ l <= Len(Rec) /\ l' = l + 1
        /\ LET j == Judge(Rec[l]) IN IF j.ok THEN TRUE ELSE PrintT(<<"MISMATCH", l, ToJson(j.exp)>>)
Spec == Init /\ [][Next]_l
Consumed == TLCGet("stats").diameter - 1 = Len(Rec)
=============================================================================
