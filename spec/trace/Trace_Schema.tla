---------------------------- MODULE Trace_Schema ----------------------------
(* Trace validation for postcard-schema (C14, C15, C16, C19).
   schema_tree: one run-time-built schema tree: borrowed/owned serialisation, conversion, decoding, both key
                hashers, used-type collection, rendering.
   schema_big : a struct around an array of tens of thousands of elements, logged in compressed form.
   conform    : one value of a concrete type: its borrowed SCHEMA, its recorded serde call tree, its postcard
                bytes, its compile-time key. *)
EXTENDS SchemaModel, Json, IOUtils
Rec == ndJsonDeserialize(IOEnv.TRACE)
VARIABLE l
Has(r, f) == f \in DOMAIN r
Bad(cs) == LET F[i \in 0..Len(cs)] == IF i = 0 THEN <<>> ELSE IF cs[i][1] THEN F[i-1] ELSE Append(F[i-1], cs[i][2]) IN F[Len(cs)]
ToSet(s) == {s[i] : i \in DOMAIN s}

JudgeTree(e) ==
  IF Has(e, "panic") THEN [ok |-> FALSE, exp |-> [bad |-> <<"panic15">>, want |-> "no panic"]]
  ELSE
  LET t == e.tree
      enc == EncSchema(t)
      key == Key(e.path, t)
      dm == DecMeta(enc, 0)
      used_ok == ~Has(e, "used_panic") /\ Has(e, "used") /\ ToSet(e.used) = Subtrees(t)
      render_ok == /\ ~Has(e, "render_panic") /\ Has(e, "rendered") /\ Has(e, "display")
                   /\ \A n \in DirectNames(t) : Occurs(n, e.rendered)
      b == Bad(<< <<e.borrowed_tree = t, "harness">>,
                  <<dm.ok /\ dm.t = t /\ dm.pos = Len(enc), "specmodel">>,           \* the spec's own encoder and parser agree
                  <<e.bytes_borrowed = enc, "enc_borrowed">>,
                  <<e.bytes_owned = enc, "enc_owned">>,
                  <<e.owned_tree = t, "conv">>,
                  <<e.decoded_tree = t /\ e.decoded_eq_conv = 1, "dec">>,
                  <<e.key_owned = key, "key_owned">>,
                  <<e.key_const = key, "key_const">>,
                  <<used_ok, "used">>,
                  <<render_ok, "render">> >>)
  IN [ok |-> b = <<>>, exp |-> [bad |-> b, want |-> [bytes |-> enc, key |-> key, n_used |-> Cardinality(Subtrees(t))]]]

\* struct Big { arr: [elem; n] } with n far beyond what can be logged element by element (see h_schema big_event): the
\* serialisation comes split as (bytes before the elements, one element, repetitions), the trees with the array
\* compressed as [k |-> "Tuple", rep |-> n, t |-> elem]. The expected prefix is that of the same struct around a unit
\* field, less the unit's tag, followed by the tuple tag and the element count.
JudgeBig(e) ==
  IF Has(e, "panic") THEN [ok |-> FALSE, exp |-> [bad |-> <<"panic15">>, want |-> "no panic"]]
  ELSE
  LET t == e.tree
      arr == t.data.fs[1].ty
      standin == [k |-> "Struct", name |-> t.name, data |-> [k |-> "Struct", fs |-> <<[name |-> t.data.fs[1].name, ty |-> [k |-> "Unit"]]>>]]
      es == EncSchema(standin)
      pre == SubSeq(es, 1, Len(es) - 1) \o <<KindIdx("Tuple")>> \o SmallVar(e.n)
      per == EncSchema(e.elem)
      SplitOK(x) == ~Has(x, "err") /\ x.pre = pre /\ x.period = per /\ x.reps = e.n /\ x.len = Len(pre) + e.n * Len(per)
      used_ok == ~Has(e, "used_panic") /\ Has(e, "used") /\ ToSet(e.used) = {t, arr} \cup Subtrees(e.elem)
      render_ok == /\ ~Has(e, "render_panic") /\ Has(e, "rendered") /\ Has(e, "display")
                   /\ Occurs(t.name, e.rendered) /\ Occurs(t.data.fs[1].name, e.rendered)
      b == Bad(<< <<arr.rep = e.n /\ arr.t = e.elem, "harness">>,
                  <<SplitOK(e.bytes_borrowed), "enc_borrowed">>,
                  <<SplitOK(e.bytes_owned), "enc_owned">>,
                  <<e.owned_tree = t, "conv">>,
                  <<e.decoded_tree = t /\ e.decoded_eq_conv = 1 /\ e.decoded_rest = 0, "dec">>,
                  <<e.key_owned = e.key_const, "key_owned">>,
                  <<used_ok, "used">>,
                  <<render_ok, "render">> >>)
  IN [ok |-> b = <<>>, exp |-> [bad |-> b, want |-> [pre |-> pre, period |-> per, n_used |-> 2 + Cardinality(Subtrees(e.elem))]]]

JudgeConform(e) ==
  IF Has(e, "panic") THEN [ok |-> FALSE, exp |-> [bad |-> <<"panic14">>, want |-> "no panic"]]
  ELSE
  LET s == e.schema  t == e.tree
      sh == ShapeOf(s)
      conf == t.c # "error" /\ Conforms(s, t)
      encok == t.c # "error" /\ e.bytes = EncTree(t)
      cons == IF s.k = "Schema" THEN (LET d == DecMeta(e.bytes, 0) IN d.ok /\ d.pos = Len(e.bytes))
              ELSE IF HasSchemaKind(sh) THEN TRUE
              ELSE (LET d == Dec(sh, e.bytes, 0) IN d.ok /\ d.pos = Len(e.bytes))
      key == Key(e.path, s)
      b == Bad(<< <<conf, "conform">>, <<cons, "consume">>, <<encok, "enc_tree">>, <<e.key_type = key, "key_type">> >>)
  IN [ok |-> b = <<>>, exp |-> [bad |-> b, want |-> [ty |-> e.ty, key |-> key, enc_tree |-> IF t.c # "error" THEN EncTree(t) ELSE <<>>]]]

Judge(e) ==
  CASE e.op = "schema_tree" -> JudgeTree(e)
    [] e.op = "conform" -> JudgeConform(e)
    [] e.op = "schema_big" -> JudgeBig(e)
    [] OTHER -> [ok |-> FALSE, exp |-> [bad |-> <<"crash">>, want |-> "no action of the specification matches this event"]]
Init == l = 1
Next == /\ l <= Len(Rec) /\ l' = l + 1
        /\ LET j == Judge(Rec[l]) IN IF j.ok THEN TRUE ELSE PrintT(<<"MISMATCH", l, ToJson(j.exp)>>)
Spec == Init /\ [][Next]_l
Consumed == TLCGet("stats").diameter - 1 = Len(Rec)
=============================================================================
