---------------------------- MODULE Trace_Dyn ----------------------------
(* Trace validation for postcard-dyn.
   dyn      (C17): for a value in scope, dynamic encoding of its serde_json form yields the static bytes and
                   dynamic decoding of the static bytes yields its serde_json form.
   dyn_ser / dyn_de (C18): never a panic; allocation of decoding bounded; whatever the encoder accepts decodes
                   and re-encodes to the same bytes, and is accepted exactly by the wire format for that schema. *)
EXTENDS Dyn, Json, IOUtils
Rec == ndJsonDeserialize(IOEnv.TRACE)
VARIABLE l
Has(r, f) == f \in DOMAIN r
Bad(cs) == LET F[i \in 0..Len(cs)] == IF i = 0 THEN <<>> ELSE IF cs[i][1] THEN F[i-1] ELSE Append(F[i-1], cs[i][2]) IN F[Len(cs)]
Panicked(r) == Has(r, "err") /\ r.err = "panic"
JudgeDyn(e) ==
  LET inScope == Unamb(e.shape, e.value)
      jexp == JsonOf(e.shape, e.value)
      b == Bad(<< <<ShapeOf(e.schema) = e.shape, "harness">>,
                  <<e.static_bytes = Enc(e.shape, e.value), "static">>,
                  <<inScope => JsonMatch(jexp, e.json), "jsonmodel">>,
                  <<~Panicked(e.dyn_bytes) /\ ~Panicked(e.dyn_json), "panic">>,
                  <<inScope => (e.dyn_bytes.ok = 1 /\ e.dyn_bytes.bytes = e.static_bytes), "dyn_enc">>,
                  <<inScope => (e.dyn_json.ok = 1 /\ JsonMatch(jexp, e.dyn_json.json)), "dyn_dec">> >>)
  IN [ok |-> b = <<>>, exp |-> [bad |-> b, want |-> [in_scope |-> inScope, bytes |-> e.static_bytes, json |-> jexp]]]
\* C17 on a concrete Rust type under its own T::SCHEMA. The specification obtains the value by parsing the static bytes
\* under the schema's shape (Wire!Dec); the JSON form is what serde_json::to_value returned (environment). If the schema
\* does not even parse the static encoding of the value, dynamic decoding cannot yield its JSON form: a violation as well.
JudgeDynT(e) ==
  LET sh == ShapeOf(e.schema)
      d == Dec(sh, e.static_bytes, 0)
      parsed == d.ok /\ d.pos = Len(e.static_bytes)
      inScope == ~parsed \/ Unamb(sh, d.v)
      b == Bad(<< <<e.tree.c # "error" /\ EncTree(e.tree) = e.static_bytes, "static">>,
                  <<~Panicked(e.dyn_bytes) /\ ~Panicked(e.dyn_json), "panic">>,
                  <<inScope => (parsed /\ e.dyn_bytes.ok = 1 /\ e.dyn_bytes.bytes = e.static_bytes), "dyn_enc">>,
                  <<inScope => (parsed /\ e.dyn_json.ok = 1 /\ JEq(e.dyn_json.json, e.json)), "dyn_dec">> >>)
  IN [ok |-> b = <<>>, exp |-> [bad |-> b, want |-> [in_scope |-> inScope, parsed |-> parsed, bytes |-> e.static_bytes, json |-> e.json]]]
DynAllocBound(e) == 256 * (Len(e.input) + e.schema_size + 16)
JudgeSer(e) ==
  LET accepted == e.res.ok = 1
      sh == ShapeOf(e.schema)
      wire == IF accepted /\ ~HasSchemaKind(sh) THEN (LET d == Dec(sh, e.res.bytes, 0) IN d.ok /\ d.pos = Len(e.res.bytes)) ELSE TRUE
      b == Bad(<< <<~Panicked(e.res) /\ (Has(e, "dec") => ~Panicked(e.dec)) /\ (Has(e, "reenc") => ~Panicked(e.reenc)), "panic">>,
                  <<accepted => (Has(e, "dec") /\ e.dec.ok = 1 /\ Has(e, "reenc") /\ e.reenc.ok = 1 /\ e.reenc.bytes = e.res.bytes), "idem">>,
                  <<wire, "wire">> >>)
  IN [ok |-> b = <<>>, exp |-> [bad |-> b, want |-> [accepted |-> accepted]]]
\* does the shape contain a sequence (or map) whose elements can occupy zero bytes? (then the element count is not
\* bounded by the input length: the recorded known finding of C18)
RECURSIVE ZwSeq(_)
ZwSeqD(d) == CASE d.k = "newtype" -> ZwSeq(d.t) [] d.k = "tuple" -> \E i \in 1..Len(d.ts) : ZwSeq(d.ts[i])
               [] d.k = "struct" -> \E i \in 1..Len(d.fs) : ZwSeq(d.fs[i].t) [] OTHER -> FALSE
ZwSeq(s) == CASE s.k = "seq" -> MinW(s.t) = 0 \/ ZwSeq(s.t)
              [] s.k = "map" -> (MinW(s.kt) = 0 /\ MinW(s.vt) = 0) \/ ZwSeq(s.kt) \/ ZwSeq(s.vt)
              [] s.k \in {"opt", "newtype_struct"} -> ZwSeq(s.t)
              [] s.k \in {"tuple", "tuple_struct"} -> \E i \in 1..Len(s.ts) : ZwSeq(s.ts[i])
              [] s.k = "struct" -> \E i \in 1..Len(s.fs) : ZwSeq(s.fs[i].t)
              [] s.k = "enum" -> \E i \in 1..Len(s.vs) : ZwSeqD(s.vs[i].d)
              [] OTHER -> FALSE
JudgeDe(e) ==
  LET b == Bad(<< <<~Panicked(e.res), "panic">>, <<e.alloc_peak <= DynAllocBound(e), "alloc">> >>)
  IN [ok |-> b = <<>>, exp |-> [bad |-> b, want |-> [alloc_bound |-> DynAllocBound(e), zw_seq |-> ZwSeq(ShapeOf(e.schema))]]]
Judge(e) ==
  CASE e.op = "dyn" -> JudgeDyn(e)
    [] e.op = "dyn_t" -> JudgeDynT(e)
    [] e.op = "dyn_ser" -> JudgeSer(e)
    [] e.op = "dyn_de" -> JudgeDe(e)
    [] OTHER -> [ok |-> FALSE, exp |-> [bad |-> <<"crash">>, want |-> "no action of the specification matches this event"]]
Init == l = 1
Next == /\ l <= Len(Rec) /\ l' = l + 1
        /\ LET j == Judge(Rec[l]) IN IF j.ok THEN TRUE ELSE PrintT(<<"MISMATCH", l, ToJson(j.exp)>>)
Spec == Init /\ [][Next]_l
Consumed == TLCGet("stats").diameter - 1 = Len(Rec)
=============================================================================
