---------------------------- MODULE Trace_Frame ----------------------------
(* Trace validation of the decode side of the framing flavours:
   cobs_take / cobs_from  - take_from_bytes_cobs / from_bytes_cobs on arbitrary buffers (C06, C07)
   crc_deb                - CRC-checked decoding of a frame under exhaustive/sampled corruptions (C10) *)
EXTENDS SerPipe, Json, IOUtils
Rec == ndJsonDeserialize(IOEnv.TRACE)
VARIABLE l
Has(r, f) == f \in DOMAIN r
Bad(cs) == LET F[i \in 0..Len(cs)] == IF i = 0 THEN <<>> ELSE IF cs[i][1] THEN F[i-1] ELSE Append(F[i-1], cs[i][2]) IN F[Len(cs)]
AlgOf(j) == [width |-> j.width, poly |-> j.poly, init |-> j.init, refin |-> j.refin = 1, refout |-> j.refout = 1, xorout |-> j.xorout]
IsPanic(res) == Has(res, "err") /\ res.err = "panic"

JudgeCobs(e, take) ==
  LET dec(p) == Dec(e.target, p, 0)
      r == IF take THEN TakeFromCobs(e.buf, 254, dec) ELSE FromCobs(e.buf, 254, dec)
      rep == DecodeReport(e.buf, 254)
      n == Len(e.buf)  fe == FrameEnd(e.buf)
      resOK == IF r.kind = "ok"
               THEN /\ e.res.ok = 1 /\ Has(e.res, "value") /\ e.res.value = r.v
                    /\ (take => e.res.rem_off = r.used /\ e.res.rem_len = n - r.used)
               ELSE e.res.ok = 0 /\ e.res.err = r.err
      \* decoding works in place: nothing beyond the first frame is touched, and on success the decoded payload (which the
      \* result borrows from) is at the front; what the rest of the frame's own bytes hold afterwards is not prescribed
      afterOK == /\ Len(e.after) = n
                 /\ SubSeq(e.after, fe + 1, n) = SubSeq(e.buf, fe + 1, n)
                 /\ rep.ok => SubSeq(e.after, 1, rep.dstUsed) = rep.out
      lv == IF r.kind = "ok" THEN SliceLeaves(r.tk) ELSE <<>>
      b == Bad(<< <<~IsPanic(e.res), "panic">>, <<resOK, "result">>, <<afterOK, "after">>, <<r.kind = "ok" => e.leaves = lv, "leaves">> >>)
  IN [ok |-> b = <<>>, exp |-> [bad |-> b, want |-> [fam |-> e.fam, res |-> IF r.kind = "ok" THEN [ok |-> 1, value |-> r.v, used |-> IF take THEN r.used ELSE -1] ELSE [ok |-> 0, err |-> r.err],
                                                     cobs_ok |-> rep.ok, leaves |-> lv]]]

CrcOutcome(alg, s, target, input, take) ==
  LET d == Dec(target, input, 0) IN
  IF ~d.ok THEN <<0, d.err>>
  ELSE IF Len(input) - d.pos < s THEN <<0, "End">>
  ELSE IF SubSeq(input, d.pos + 1, d.pos + s) = CrcLE(alg, SubSeq(input, 1, d.pos), s)
       THEN <<1, d.v, IF take THEN Len(input) - d.pos - s ELSE -1>>
  ELSE <<0, "BadCrc">>
JudgeCrc(e) ==
  LET alg == AlgOf(e.alg)  s == e.alg.s
      modelOK == CrcLE(alg, Check9, s) = e.alg.check
      plain == Enc(e.target, e.value)
      encOK == e.frame = plain \o CrcLE(alg, plain, s)
      T == TLCEval([i \in 1..Len(e.cases) |-> CrcOutcome(alg, s, e.target, e.cases[i][2], e.cases[i][4] >= 1)])
      \* the statement requires acceptance with the right value/remainder, or rejection (it names no error kind)
      Agree(obs, exp) == IF exp[1] = 1 THEN obs = exp ELSE obs[1] = 0 /\ obs[2] # "panic"
      badIdx == {i \in 1..Len(e.cases) : ~Agree(e.cases[i][3], T[i])}
      first == IF badIdx = {} THEN 0 ELSE CHOOSE i \in badIdx : \A k \in badIdx : i <= k
      b == Bad(<< <<modelOK, "crcmodel">>, <<encOK, "crcenc">>, <<badIdx = {}, "crcde">> >>)
  IN [ok |-> b = <<>>, exp |-> [bad |-> b, want |-> [first_bad_case |-> first, expected |-> IF first = 0 THEN <<>> ELSE T[first],
                                                     observed |-> IF first = 0 THEN <<>> ELSE e.cases[first]]]]

Judge(e) ==
  CASE e.op = "cobs_take" -> JudgeCobs(e, TRUE)
    [] e.op = "cobs_from" -> JudgeCobs(e, FALSE)
    [] e.op = "crc_deb" -> JudgeCrc(e)
    [] OTHER -> [ok |-> FALSE, exp |-> [bad |-> <<"crash">>, want |-> "no action of the specification matches this event"]]

Init == l = 1
Next == /\ l <= Len(Rec) /\ l' = l + 1
        /\ LET j == Judge(Rec[l]) IN IF j.ok THEN TRUE ELSE PrintT(<<"MISMATCH", l, ToJson(j.exp)>>)
Spec == Init /\ [][Next]_l
Consumed == TLCGet("stats").diameter - 1 = Len(Rec)
=============================================================================
