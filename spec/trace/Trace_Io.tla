---------------------------- MODULE Trace_Io ----------------------------
(* Trace validation of the byte-writer / byte-reader transports (C11).
   io_ser: serialisation through a scripted writer (pieces, injected failure or "full" at a byte offset).
   io_de : 1..3 consecutive messages decoded from one scripted reader (pieces, injected failure) with one
           scratch buffer handed from call to call. A reader that fails at offset f is indistinguishable from
           a stream that ends at f, so the expected outcome is Wire!Dec on the readable part of the stream,
           subject to the scratch accounting of DePipe (every block read consumes scratch). *)
EXTENDS Wire, SequencesExt, Json, IOUtils
Rec == ndJsonDeserialize(IOEnv.TRACE)
VARIABLE l
Has(r, f) == f \in DOMAIN r
Bad(cs) == LET F[i \in 0..Len(cs)] == IF i = 0 THEN <<>> ELSE IF cs[i][1] THEN F[i-1] ELSE Append(F[i-1], cs[i][2]) IN F[Len(cs)]
IsPanic(res) == Has(res, "err") /\ res.err = "panic"

JudgeSer(e) ==
  LET plain == Enc(e.shape, e.value)
      fits == e.fail_at < 0 \/ e.fail_at >= Len(plain)
      good == IF fits /\ e.flush_fail = 1 THEN e.res.ok = 0 /\ ~IsPanic(e.res) /\ e.written = plain /\ e.flushed >= 1      \* a failing flush is a failing writer
              ELSE IF fits THEN e.res.ok = 1 /\ e.written = plain /\ e.flushed >= 1
              ELSE e.res.ok = 0 /\ ~IsPanic(e.res) /\ IsPrefix(e.written, plain) /\ Len(e.written) <= e.fail_at
  IN [ok |-> good, exp |-> [bad |-> IF good THEN <<>> ELSE <<"io_ser">>, want |-> [plain |-> plain, must_succeed |-> fits]]]

\* walk the messages; state: rd = stream position, [lo, lo + len) = the scratch region still unused (what the previous call
\* returned); returns the index of the first disagreeing message (0 if none) and what was expected there
RECURSIVE Walk(_, _, _, _, _)
Walk(e, i, rd, lo, len) ==
  IF i > Len(e.msgs) THEN [bad |-> 0, want |-> 0]
  ELSE
    LET m == e.msgs[i]
        n == Len(e.stream)
        eff == IF e.fail_at >= 0 /\ e.fail_at < n THEN SubSeq(e.stream, 1, e.fail_at) ELSE e.stream
        full == Dec(e.shape, e.stream, rd)
        vis == Dec(e.shape, eff, rd)
        needAll == IF vis.ok THEN ScratchNeed(vis.tk) ELSE 0          \* every block read passes through the scratch
        needBor == IF vis.ok THEN BorrowNeed(vis.tk) ELSE 0           \* only what the result borrows
        mustOk == vis.ok /\ needAll <= len
        mayOk == vis.ok /\ needBor <= len
        want == IF mustOk THEN [ok |-> 1, value |-> vis.v, rd_after |-> vis.pos, scratch_used |-> <<needBor, needAll>>]
                ELSE IF mayOk THEN [ok |-> "either", value |-> vis.v, rd_after |-> vis.pos, scratch_used |-> <<needBor, needAll>>]
                ELSE [ok |-> 0, err |-> IF vis.ok \/ full.ok THEN "End" ELSE vis.err]
        pre == m.rd_before = rd /\ m.sc_off = lo /\ m.sc_len = len
        B == IF vis.ok THEN BorrowBlocks(vis.tk) ELSE <<>>
        good == /\ pre /\ ~IsPanic(m.res)
                /\ IF m.res.ok = 1
                   THEN /\ mayOk /\ m.res.value = vis.v /\ m.rd_after = vis.pos                         \* not one byte more than the message
                        \* the unused scratch is returned: one contiguous part of what was available (which end is not
                        \* prescribed), everything placed lies outside it, and no more is missing than one copy of every block read
                        /\ m.rem_len >= 0 /\ (m.rem_len = 0 \/ (m.rem_off >= lo /\ m.rem_off + m.rem_len <= lo + len))     \* (an empty remainder has no position)
                        /\ len - m.rem_len <= needAll
                        /\ ReaderLeavesOK(m.leaves, vis.tk, lo, lo + len)
                        /\ \A j \in 1..Len(B) : (B[j].n = 0 \/ m.rem_len = 0 \/ m.leaves[j][1] + m.leaves[j][2] <= m.rem_off \/ m.leaves[j][1] >= m.rem_off + m.rem_len)
                   ELSE /\ ~mustOk
                        \* a failing reader or a short scratch must produce an error (the statement names no kind); a damaged
                        \* stream with everything available must fail exactly as slice decoding does
                        /\ ((vis.ok \/ full.ok) \/ vis.err = "Custom" \/ m.res.err = want.err)
                        /\ (full.ok => m.rd_after <= full.pos)                                           \* no over-read on the failing path either
                        /\ m.rd_after <= Len(eff)
    IN IF ~good THEN [bad |-> i, want |-> want]
       ELSE IF m.res.ok = 1 THEN Walk(e, i + 1, vis.pos, m.rem_off, m.rem_len) ELSE [bad |-> (IF i < Len(e.msgs) THEN i + 1 ELSE 0), want |-> "no call after a failure"]
JudgeDe(e) ==
  LET w == Walk(e, 1, 0, 0, e.scratch_len)
      nonempty == Len(e.msgs) >= 1
  IN [ok |-> w.bad = 0 /\ nonempty, exp |-> [bad |-> IF w.bad = 0 /\ nonempty THEN <<>> ELSE <<"io_de">>, want |-> [msg |-> w.bad, expected |-> w.want]]]

Judge(e) ==
  CASE e.op = "io_ser" -> JudgeSer(e)
    [] e.op = "io_de" -> JudgeDe(e)
    [] OTHER -> [ok |-> FALSE, exp |-> [bad |-> <<"crash">>, want |-> "no action of the specification matches this event"]]
Init == l = 1
Next == /\ l <= Len(Rec) /\ l' = l + 1
        /\ LET j == Judge(Rec[l]) IN IF j.ok THEN TRUE ELSE PrintT(<<"MISMATCH", l, ToJson(j.exp)>>)
Spec == Init /\ [][Next]_l
Consumed == TLCGet("stats").diameter - 1 = Len(Rec)
=============================================================================
