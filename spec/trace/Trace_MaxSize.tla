---------------------------- MODULE Trace_MaxSize ----------------------------
(* C12: for every type with a MaxSize implementation: the declared constant is at least the structural
   supremum of the encoded length of its shape, every sampled value is no longer than the declared constant
   (and fits a buffer of that size), and for the kinds claimed tight the constant equals the supremum and is
   attained by one of the maximising sample values. *)
EXTENDS MaxSize, Json, IOUtils
Rec == ndJsonDeserialize(IOEnv.TRACE)
VARIABLE l
Bad(cs) == LET F[i \in 0..Len(cs)] == IF i = 0 THEN <<>> ELSE IF cs[i][1] THEN F[i-1] ELSE Append(F[i-1], cs[i][2]) IN F[Len(cs)]
Judge(e) ==
  IF e.op # "maxsize" THEN [ok |-> FALSE, exp |-> [bad |-> <<"crash">>, want |-> "no action of the specification matches this event"]]
  ELSE
  LET sup == SupLen(e.shape)
      tight == TightKind(e.shape)
      mx == Max({e.lens[i] : i \in 1..Len(e.lens)} \cup {0})
      b == Bad(<< <<\A i \in 1..Len(e.lens) : e.lens[i] >= 0, "panic">>,
                  <<e.declared >= sup, "bound">>,
                  <<\A i \in 1..Len(e.lens) : e.lens[i] <= e.declared /\ e.fits[i] = 1, "bound">>,
                  <<mx <= sup, "specmodel">>,                              \* a sample longer than the spec's supremum: the shape declared by the harness is wrong
                  <<tight => e.declared = sup, "tight">>,
                  <<tight => mx = sup, "witness">> >>)
  IN [ok |-> b = <<>>, exp |-> [bad |-> b, want |-> [ty |-> e.ty, sup |-> sup, tight |-> tight, max_sample |-> mx]]]
Init == l = 1
Next == /\ l <= Len(Rec) /\ l' = l + 1
        /\ LET j == Judge(Rec[l]) IN IF j.ok THEN TRUE ELSE PrintT(<<"MISMATCH", l, ToJson(j.exp)>>)
Spec == Init /\ [][Next]_l
Consumed == TLCGet("stats").diameter - 1 = Len(Rec)
=============================================================================
