---------------------------- MODULE SerPipe ----------------------------
(* The serialisation pipeline: plain bytes -> modifier layers (CRC, COBS) -> storage.
   Functional side: Full(stack, plain) = the layers' transformations applied in stack order (outermost
   first), independent of the storage. Machine side: the bytes travel through the layers one call at a
   time exactly as the flavours forward them (a modifier turns every block write into single pushes; a
   storage accepts a block all-or-nothing), into a store of capacity cap (-1 = unbounded). *)
EXTENDS Wire, Cobs, Crc
\* layer: [l |-> "crc", alg |-> [...], s |-> checksum bytes] or [l |-> "cobs"]
LayerApply(layer, x, MR) == IF layer.l = "crc" THEN x \o CrcLE(layer.alg, x, layer.s) ELSE Framed(x, MR)
RECURSIVE FullMR(_, _, _)
FullMR(stack, x, MR) == IF stack = <<>> THEN x ELSE FullMR(Tail(stack), LayerApply(Head(stack), x, MR), MR)
Full(stack, x) == FullMR(stack, x, 254)
Bounded(storage) == storage \in {"slice", "hvec"}
\* the outcome the public entry points must produce for an ordinary value
SerOutcome(stack, storage, cap, plain) ==
  LET f == Full(stack, plain) IN
  IF storage = "size" THEN [ok |-> 1, size |-> Len(f)]
  ELSE IF Bounded(storage) /\ cap < Len(f) THEN [ok |-> 0, err |-> "BufferFull"]
  ELSE [ok |-> 1, bytes |-> f]

\* ---------------- machine ----------------
\* pipeline state: [dig (CRC register or <<>>), enc (COBS encoder state), st (store), err]
HasL(stack, l) == \E i \in 1..Len(stack) : stack[i].l = l
PipeInit(stack, cap, MR) ==
  LET crc == IF HasL(stack, "crc") THEN (CHOOSE i \in 1..Len(stack) : stack[i].l = "crc") ELSE 0
      s0 == StNew(cap)
      \* Cobs::try_new reserves the first code byte
      s1 == IF HasL(stack, "cobs") THEN StPush(s0, 0) ELSE s0
  IN [dig |-> IF crc # 0 THEN DigestInit(stack[crc].alg) ELSE <<>>, enc |-> EncInit, st |-> s1]
\* push one byte into the part of the stack starting at layer index i (Len+1 = the store)
RECURSIVE PushAt(_, _, _, _, _)
PushAt(stack, i, p, b, MR) ==
  IF p.st.full THEN p
  ELSE IF i > Len(stack) THEN [p EXCEPT !.st = StPush(p.st, b)]
  ELSE IF stack[i].l = "crc" THEN
       LET alg == stack[i].alg
           d == StepByte(p.dig, alg.width, CBits(alg.poly, alg.width), b, alg.refin, 0)
       IN PushAt(stack, i + 1, [p EXCEPT !.dig = d], b, MR)
  ELSE \* cobs sits directly on the store (it needs IndexMut)
       LET r == CobsPush(p.enc, p.st, b, MR) IN [p EXCEPT !.enc = r.e, !.st = r.st]
RECURSIVE PushAllAt(_, _, _, _, _)
PushAllAt(stack, i, p, bs, MR) == IF bs = <<>> \/ p.st.full THEN p ELSE PushAllAt(stack, i, PushAt(stack, i, p, Head(bs), MR), Tail(bs), MR)
\* a block handed to the top flavour with try_extend: only a bare store takes it as a block (all or nothing)
ExtendTop(stack, p, bs, MR) ==
  IF stack # <<>> THEN PushAllAt(stack, 1, p, bs, MR)
  ELSE IF p.st.cap >= 0 /\ Len(p.st.buf) + Len(bs) > p.st.cap THEN [p EXCEPT !.st.full = TRUE]
  ELSE [p EXCEPT !.st.buf = @ \o bs]
\* finalize the layers from the outermost inwards
RECURSIVE FinalizeAt(_, _, _, _)
FinalizeAt(stack, i, p, MR) ==
  IF p.st.full \/ i > Len(stack) THEN p
  ELSE IF stack[i].l = "crc" THEN
       LET ck == LET alg == stack[i].alg  f == DigestFinal(alg, p.dig)  bit(q) == IF q < alg.width THEN f[q] ELSE 0 IN
                 [j \in 1..stack[i].s |-> bit(8*(j-1)) + 2*bit(8*(j-1)+1) + 4*bit(8*(j-1)+2) + 8*bit(8*(j-1)+3)
                                          + 16*bit(8*(j-1)+4) + 32*bit(8*(j-1)+5) + 64*bit(8*(j-1)+6) + 128*bit(8*(j-1)+7)]
       IN FinalizeAt(stack, i + 1, PushAllAt(stack, i + 1, p, ck, MR), MR)
  ELSE [p EXCEPT !.st = CobsFinalize(p.enc, p.st)]
=========================================================================
