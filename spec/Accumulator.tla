---------------------------- MODULE Accumulator ----------------------------
EXTENDS Wire, CobsFn, SequencesExt
CONSTANTS N, Alphabet, MaxChunk, Target, Fit   \* Fit = TRUE: environment of C08 (every segment fits)

\* postcard::from_bytes_cobs::<Target>(frame): [kind |-> "Success", v] or [kind |-> "DeserError"]
FromBytesCobs(frame) ==
  LET r == DecodeReport(frame) IN
  IF ~r.ok THEN [kind |-> "DeserError", v |-> 0]
  ELSE LET d == Dec(Target, r.out, 0) IN IF d.ok THEN [kind |-> "Success", v |-> d.v] ELSE [kind |-> "DeserError", v |-> 0]

\* one call of feed_ref as a pure function of (buffered bytes, input); branch names are the code's branches
Feed(b, c) ==
  IF c = <<>> THEN [br |-> "Empty", buf |-> b, kind |-> "Consumed", v |-> 0, rem |-> <<>>]
  ELSE LET z == FirstZero(c) IN
    IF z # 0 THEN
      LET take == SubSeq(c, 1, z)  release == SubSeq(c, z + 1, Len(c)) IN
      IF Len(b) + Len(take) <= N
      THEN LET r == FromBytesCobs(b \o take) IN [br |-> "ZeroFits", buf |-> <<>>, kind |-> r.kind, v |-> r.v, rem |-> release]
      ELSE [br |-> "ZeroOver", buf |-> <<>>, kind |-> "OverFull", v |-> 0, rem |-> release]
    ELSE IF Len(b) + Len(c) > N
      THEN [br |-> "NoZeroOver", buf |-> <<>>, kind |-> "OverFull", v |-> 0, rem |-> SubSeq(c, N - Len(b) + 1, Len(c))]
      ELSE [br |-> "NoZeroFits", buf |-> b \o c, kind |-> "Consumed", v |-> 0, rem |-> <<>>]

VARIABLES buf, window, seg, segOver
vars == <<buf, window, seg, segOver>>
Chunks == UNION {[1..k -> Alphabet] : k \in 1..MaxChunk}
\* would feeding chunk c keep every segment within capacity?  (used only when Fit)
RECURSIVE FitsFrom(_, _)
FitsFrom(pending, c) ==       \* pending = length of the current segment so far
  IF c = <<>> THEN pending <= N
  ELSE LET z == FirstZero(c) IN
       IF z = 0 THEN pending + Len(c) <= N
       ELSE pending + z <= N /\ FitsFrom(0, SubSeq(c, z + 1, Len(c)))

\* ---- per-transition obligations (C08/C09), evaluated on EVERY explored edge ----
EdgeOK(r, consumed, endsZero) ==
  /\ consumed \o r.rem = window                                                         \* Conserve
  /\ (r.kind # "Consumed") <=> (endsZero \/ r.br = "NoZeroOver")                          \* OnePerZero
  /\ endsZero => r.buf = <<>>                                                            \* InitAfterZero
  /\ (endsZero /\ ~segOver /\ Len(seg) + Len(consumed) <= N) =>                          \* FrameResult
        LET f == FromBytesCobs(seg \o consumed) IN r.kind = f.kind /\ r.v = f.v
  /\ (endsZero /\ ~segOver /\ Len(seg) + Len(consumed) > N) => r.kind = "OverFull"       \* OverflowReported
  /\ Fit => r.kind # "OverFull"                                                          \* NoOverWhenFit

Init == buf = <<>> /\ window = <<>> /\ seg = <<>> /\ segOver = FALSE
NewChunk == /\ window = <<>>
            /\ \E c \in Chunks : (Fit => FitsFrom(Len(seg), c)) /\ window' = c
            /\ UNCHANGED <<buf, seg, segOver>>
FeedStep == /\ window # <<>>
            /\ LET r == Feed(buf, window)
                   consumed == SubSeq(window, 1, Len(window) - Len(r.rem))
                   endsZero == consumed # <<>> /\ consumed[Len(consumed)] = 0
               IN /\ Assert(EdgeOK(r, consumed, endsZero), <<"edge obligation failed", buf, window, seg, segOver, r>>)
                  /\ buf' = r.buf /\ window' = r.rem
                  /\ IF endsZero THEN seg' = <<>> /\ segOver' = FALSE
                     ELSE IF r.kind = "OverFull" THEN seg' = <<>> /\ segOver' = TRUE
                     ELSE seg' = (IF segOver THEN <<>> ELSE seg \o consumed) /\ UNCHANGED segOver
Next == NewChunk \/ FeedStep
Spec == Init /\ [][Next]_vars /\ WF_vars(FeedStep)

IdxBound == Len(buf) <= N
BufIsSeg == ~segOver => buf = seg
\* ---- progress of the documented loop (N >= 1) ----
Less(w2, b2, w1, b1) == Len(w2) < Len(w1) \/ (Len(w2) = Len(w1) /\ Len(b2) < Len(b1))
Progress == [][window # <<>> => Less(window', buf', window, buf)]_vars
Drains == []<>(window = <<>>)
=============================================================================
