---------------------------- MODULE Accumulator ----------------------------
(* postcard::accumulator::CobsAccumulator<N>::feed_ref as a pure step function of the buffered bytes and
   the chunk given, with the code's five branches named. The model-checking instance (mc/MC_Acc) wraps
   it in an environment that may feed any chunk in any state and re-feeds remainders as documented. *)
EXTENDS Wire, Cobs, SequencesExt
MAXRUN == 254

\* postcard::from_bytes_cobs::<target>(frame) as the accumulator sees it
FrameOutcome(target, frame) ==
  LET r == FromCobs(frame, MAXRUN, LAMBDA p : Dec(target, p, 0)) IN
  IF r.kind = "ok" THEN [kind |-> "Success", v |-> r.v, tk |-> r.tk] ELSE [kind |-> "DeserError", v |-> 0, tk |-> <<>>]

\* one call of feed_ref; cap = N, b = buffered bytes (idx = Len(b)), c = input
Feed(cap, target, b, c) ==
  IF c = <<>> THEN [br |-> "Empty", buf |-> b, kind |-> "Consumed", v |-> 0, rem |-> <<>>, tk |-> <<>>]
  ELSE LET z == FirstZero(c) IN
    IF z # 0 THEN
      LET take == SubSeq(c, 1, z)  release == SubSeq(c, z + 1, Len(c)) IN
      IF Len(b) + Len(take) <= cap
      THEN LET r == FrameOutcome(target, b \o take) IN [br |-> "ZeroFits", buf |-> <<>>, kind |-> r.kind, v |-> r.v, rem |-> release, tk |-> r.tk]
      ELSE [br |-> "ZeroOver", buf |-> <<>>, kind |-> "OverFull", v |-> 0, rem |-> release, tk |-> <<>>]
    ELSE IF Len(b) + Len(c) > cap
      THEN [br |-> "NoZeroOver", buf |-> <<>>, kind |-> "OverFull", v |-> 0, rem |-> SubSeq(c, cap - Len(b) + 1, Len(c)), tk |-> <<>>]
      ELSE [br |-> "NoZeroFits", buf |-> b \o c, kind |-> "Consumed", v |-> 0, rem |-> <<>>, tk |-> <<>>]

\* would feeding chunk c keep every segment within capacity?  (environment of C08)
RECURSIVE FitsFrom(_, _, _)
FitsFrom(cap, pending, c) ==       \* pending = length of the current segment so far
  IF c = <<>> THEN pending <= cap
  ELSE LET z == FirstZero(c) IN
       IF z = 0 THEN pending + Len(c) <= cap
       ELSE pending + z <= cap /\ FitsFrom(cap, 0, SubSeq(c, z + 1, Len(c)))

\* ---- per-transition obligations (C08/C09) in terms of the ghost "current segment" ----
\* seg: bytes of the current segment consumed so far (meaningful while ~segOver); segOver: an overflow was
\* already reported inside the current segment
EdgeOK(cap, target, fit, window, seg, segOver, r) ==
  LET consumed == SubSeq(window, 1, Len(window) - Len(r.rem))
      endsZero == consumed # <<>> /\ consumed[Len(consumed)] = 0 IN
  /\ Len(r.rem) <= Len(window) /\ consumed \o r.rem = window                            \* Conserve
  /\ (r.kind # "Consumed") <=> (endsZero \/ r.br = "NoZeroOver")                          \* OnePerZero
  /\ endsZero => r.buf = <<>>                                                            \* InitAfterZero
  /\ (endsZero /\ ~segOver /\ Len(seg) + Len(consumed) <= cap) =>                        \* FrameResult
        LET f == FrameOutcome(target, seg \o consumed) IN r.kind = f.kind /\ r.v = f.v
  /\ (endsZero /\ ~segOver /\ Len(seg) + Len(consumed) > cap) => r.kind = "OverFull"     \* OverflowReported
  /\ fit => r.kind # "OverFull"                                                          \* NoOverWhenFit
\* The same obligations stated on what a caller can observe of one call - result kind, value, remainder, buffered bytes
\* afterwards - without reference to the branches of the present implementation. Any accumulator that satisfies C08/C09
\* passes, whichever call it chooses to report an overflow in, however much of an over-long segment it consumes per call,
\* and whether or not it reports anything for the rest of a segment it has already reported as over-long.
\* o = [kind, v, rem, buf]
\* a call that starts inside a segment for which no overflow has been reported (seg = its bytes so far)
EdgeFresh(cap, target, fit, window, seg, o) ==
  /\ Len(o.rem) <= Len(window)
  /\ LET consumed == SubSeq(window, 1, Len(window) - Len(o.rem))
         endsZero == consumed # <<>> /\ consumed[Len(consumed)] = 0 IN
     /\ consumed \o o.rem = window                                                          \* Conserve
     /\ FirstZero(consumed) \in {0, Len(consumed)}                                          \* never past the sentinel of a segment it owes a result for
     /\ o.kind \in {"Consumed", "Success", "DeserError", "OverFull"}
     /\ (o.kind = "Consumed") => (~endsZero /\ o.rem = <<>>)                                 \* one result per zero
     /\ (o.kind \in {"Success", "DeserError"}) => endsZero
     /\ endsZero => o.buf = <<>>                                                            \* InitAfterZero
     /\ (endsZero /\ Len(seg) + Len(consumed) <= cap) =>                                    \* FrameResult
           LET f == FrameOutcome(target, seg \o consumed) IN o.kind = f.kind /\ (f.kind = "Success" => o.v = f.v)
     /\ (endsZero /\ Len(seg) + Len(consumed) > cap) => o.kind = "OverFull"                 \* OverflowReported (before the sentinel is passed)
     /\ fit => o.kind # "OverFull"                                                          \* NoOverWhenFit
     /\ Len(o.buf) <= cap
\* a call that starts in the rest of a segment already reported as over-long: nothing is owed for that rest, its sentinel
\* may be reported on or passed silently; whatever follows the sentinel inside the same call is a fresh segment
EdgeOKObs(cap, target, fit, window, seg, segOver, o) ==
  IF ~segOver THEN EdgeFresh(cap, target, fit, window, seg, o)
  ELSE /\ Len(o.rem) <= Len(window)
       /\ LET consumed == SubSeq(window, 1, Len(window) - Len(o.rem))
              z == FirstZero(consumed) IN
          IF z # 0 /\ z < Len(consumed)
          THEN EdgeFresh(cap, target, fit, SubSeq(window, z + 1, Len(window)), <<>>, o)
          ELSE /\ consumed \o o.rem = window
               /\ o.kind \in {"Consumed", "Success", "DeserError", "OverFull"}
               /\ (o.kind = "Consumed") => o.rem = <<>>
               /\ (o.kind \in {"Success", "DeserError"}) => z # 0
               /\ (z # 0) => o.buf = <<>>                                                   \* initial state after every zero byte
               /\ ~fit /\ Len(o.buf) <= cap
\* ghost update
NextSeg(window, seg, segOver, r) ==
  LET consumed == SubSeq(window, 1, Len(window) - Len(r.rem))
      z == FirstZero(consumed)
      \* the part of consumed that belongs to the segment now current (after a silently passed sentinel of an over-long one)
      cur == IF segOver /\ z # 0 /\ z < Len(consumed) THEN SubSeq(consumed, z + 1, Len(consumed)) ELSE consumed
      fresh == segOver /\ z # 0 /\ z < Len(consumed)
      endsZero == cur # <<>> /\ cur[Len(cur)] = 0 IN
  IF endsZero THEN [seg |-> <<>>, over |-> FALSE]
  ELSE IF r.kind = "OverFull" THEN [seg |-> <<>>, over |-> TRUE]
  ELSE IF fresh THEN [seg |-> cur, over |-> FALSE]
  ELSE [seg |-> IF segOver THEN <<>> ELSE seg \o consumed, over |-> segOver]
=============================================================================
