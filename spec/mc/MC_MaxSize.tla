---------------------------- MODULE MC_MaxSize ----------------------------
(* The structural rule SupLen used as the oracle of C12 is itself checked against Enc: for every bounded
   shape of MC_Wire's population (plus fixed-capacity containers of capacity <= 2) the supremum equals the
   maximum encoded length over the (maximum-containing) value domain, and VarintLen agrees with Canon. *)
EXTENDS MC_Wire, MaxSize
RECURSIVE Bounded(_)
BoundedD(d) == CASE d.k = "newtype" -> Bounded(d.t) [] d.k = "tuple" -> \A i \in 1..Len(d.ts) : Bounded(d.ts[i])
                 [] d.k = "struct" -> \A i \in 1..Len(d.fs) : Bounded(d.fs[i].t) [] OTHER -> TRUE
Bounded(s) == CASE s.k \in {"str", "bytes", "seq", "map", "fixle", "fixbe"} -> FALSE
                [] s.k \in {"opt", "newtype_struct"} -> Bounded(s.t)
                [] s.k \in {"tuple", "tuple_struct"} -> \A i \in 1..Len(s.ts) : Bounded(s.ts[i])
                [] s.k = "struct" -> \A i \in 1..Len(s.fs) : Bounded(s.fs[i].t)
                [] s.k = "enum" -> \A i \in 1..Len(s.vs) : BoundedD(s.vs[i].d)
                [] OTHER -> TRUE
Caps == {[k |-> "hvec", t |-> K(e), cap |-> c] : e \in {"u8", "u16", "char"}, c \in 0..2} \cup {[k |-> "hstr", cap |-> c] : c \in 0..2}
CapVals(s) == IF s.k = "hvec" THEN SeqsUpTo(LV(s.t), s.cap)
              ELSE {<<>>, <<65>>, <<65, 66>>, <<195, 169>>} \cap {x \in {<<>>, <<65>>, <<65, 66>>, <<195, 169>>} : Len(x) <= s.cap}
MInit == ph = 0 /\ val = 0 /\ sh \in {s \in Shapes : Bounded(s)} \cup Caps
MNext == UNCHANGED vars
SupIsMax == LET vs == IF sh.k \in {"hvec", "hstr"} THEN CapVals(sh) ELSE Vals(sh)
                w == AsWire(sh)
            IN SupLen(sh) = Max({Len(Enc(w, v)) : v \in vs})
VarintLenOK == sh = K("bool") => \A n \in {0, 1, 127, 128, 129, 16383, 16384, 16385, 2097151, 2097152} :
                   VarintLen(n) = Len(Canon(BitsOfBytes(Limbs(n, 4), 32), 32))
=============================================================================
