---------------------------- MODULE MC_Transport ----------------------------
(* read_exact / write_all over an environment that transfers data in nondeterministic pieces and may fail
   at a byte offset: a sequence of requests (pop = 1 byte, take = k bytes) either all succeed having
   consumed exactly the requested bytes, or the first request that needs a byte at or beyond the fault /
   end of stream fails; never is a byte consumed that no request asked for. The failing reader is
   observationally a stream truncated at the fault, which is what Trace_Io relies on. *)
EXTENDS Integers, Sequences, TLC
CONSTANTS StreamLen, MaxPiece, Requests      \* Requests: a sequence of request sizes, e.g. <<1, 3, 1, 2>>
ReqA == <<1, 3, 1, 2>>
ReqB == <<2, 1, 4>>
ReqC == <<1, 1, 5, 2, 1>>
VARIABLES fail, pos, req, got, status, asked   \* fail: fault offset (StreamLen + 1 = none); req: index of current request; got: bytes of it so far
vars == <<fail, pos, req, got, status, asked>>
Init == /\ fail \in 0..(StreamLen + 1) /\ pos = 0 /\ req = 1 /\ got = 0 /\ status = "run" /\ asked = 0
Limit == IF fail <= StreamLen THEN fail ELSE StreamLen
\* one Read call of the read_exact loop for the current request
ReadCall == /\ status = "run" /\ req <= Len(Requests)
            /\ LET want == Requests[req] - got IN
               \E piece \in 1..MaxPiece :
                 LET k == IF piece < want THEN piece ELSE want
                     avail == Limit - pos IN
                 IF avail = 0 THEN      \* EOF (Ok(0) -> UnexpectedEof) or injected error: read_exact fails
                      /\ status' = "failed" /\ UNCHANGED <<pos, req, got, fail>> /\ asked' = asked
                 ELSE LET t == IF k < avail THEN k ELSE avail IN
                      /\ pos' = pos + t
                      /\ IF got + t = Requests[req] THEN req' = req + 1 /\ got' = 0 ELSE req' = req /\ got' = got + t
                      /\ UNCHANGED <<status, fail>> /\ asked' = asked
Done == status = "run" /\ req > Len(Requests) /\ status' = "ok" /\ UNCHANGED <<fail, pos, req, got, asked>>
Next == ReadCall \/ Done
Spec == Init /\ [][Next]_vars
RECURSIVE Sum(_, _)
Sum(s, n) == IF n = 0 THEN 0 ELSE s[n] + Sum(s, n - 1)
Total == Sum(Requests, Len(Requests))
NoOverRead == pos <= Sum(Requests, IF req > Len(Requests) THEN Len(Requests) ELSE req) /\ pos <= Limit
ExactOnSuccess == status = "ok" => pos = Total
SuccessIffAvailable == /\ status = "ok" => Total <= Limit
                       /\ status = "failed" => Total > Limit          \* as if the stream ended at the fault
=============================================================================
