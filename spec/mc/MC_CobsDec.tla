---------------------------- MODULE MC_CobsDec ----------------------------
(* The in-place COBS decoder (cobs::decode_in_place_report's decode_raw loop with src = dst) as a step
   machine, on every byte string up to MaxLen over 0..MR+1 (scaled MR so that the "no implied zero" code is
   reachable), against the functional definition: it never reads at or beyond the end of the first frame,
   never writes at or beyond the next unread source byte, fails exactly when a code byte points past the
   frame, and otherwise leaves the standard-decoded payload at the front with everything behind it intact. *)
EXTENDS Cobs, TLC
CONSTANTS MR, MaxLen
VARIABLES inp, st
vars == <<inp, st>>
Inputs == UNION {[1..n -> 0..(MR + 1)] : n \in 0..MaxLen}
Init == inp \in Inputs /\ st = DrInit(inp)
Next == st.status \in {"code", "copy"} /\ st' = DrStep(st, MR) /\ UNCHANGED inp
Spec == Init /\ [][Next]_vars
Ordered == st.di <= st.si /\ st.si <= st.srcEnd /\ st.srcEnd <= Len(inp)
ReadsInFrame == st.lastR < st.srcEnd
WritesBehindReads == st.lastW < st.si /\ st.lastW <= st.lastR
Untouched == \A j \in (st.di + 1)..Len(inp) : st.buf[j] = inp[j]          \* only the first di bytes ever differ from the input
Terminal == LET r == DecodeReport(inp, MR) IN
   /\ st.status = "err" => ~r.ok
   /\ st.status = "done" => /\ r.ok /\ st.di = r.dstUsed /\ st.si = r.srcUsed /\ st.buf = r.buf
                            /\ SubSeq(st.buf, 1, st.di) = r.out
\* the functional decoder inverts the functional encoder (on messages over the same alphabet)
EncDec == (st.status = "code" /\ st.si = 0 /\ \A i \in 1..Len(inp) : inp[i] <= MR) =>
   LET f == CobsEnc(inp, MR)  d == CobsDec(f, MR) IN
   /\ d.ok /\ d.out = inp /\ \A i \in 1..Len(f) : f[i] # 0
   /\ Len(f) <= Len(inp) + (Len(inp) \div MR) + 1
=============================================================================
