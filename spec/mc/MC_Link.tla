---------------------------- MODULE MC_Link ----------------------------
(* Model-checking instance of Link: exhaustive over every placement of up to MaxFaults single-byte faults, every
   interleaving of sending with receiving and every chunking (chunks <= MaxChunk). With Emit the behaviours are
   also enumerated as replay vectors: `hist` is the sequence of chunks handed to the receive loop; at quiescence one
   line per distinct (hist, got) is printed - the chunks, the messages, and the untouched messages the model says
   must come out - and the harness drives the real CobsAccumulator through the documented loop with exactly these chunks. *)
EXTENDS Link, Json
CONSTANTS TargetName, Emit
VARIABLE hist
MCTarget == IF TargetName = "pair" THEN [k |-> "tuple", ts |-> <<[k |-> "u8"], [k |-> "bool"]>>]
            ELSE IF TargetName = "bytes" THEN [k |-> "bytes"]
            ELSE [k |-> "u16"]
PairMsgs == << <<1, 0>>, <<2, 1>>, <<0, 1>> >>
PairMsgs2 == << <<1, 0>>, <<3, 1>> >>
BytesMsgs == << <<0, 2>>, <<>>, <<1>> >>
BytesMsgs2 == << <<0>>, <<2, 1>> >>
mvars == <<lvars, hist>>
Init == LInit /\ hist = <<>>
Next == \/ TakeChunk /\ hist' = (IF Emit THEN Append(hist, window') ELSE hist)
        \/ (Send \/ Substitute \/ Drop \/ Insert \/ FeedStep) /\ UNCHANGED hist
Spec == Init /\ [][Next]_mvars /\ WF_mvars(TakeChunk /\ hist' = (IF Emit THEN Append(hist, window') ELSE hist))
             /\ WF_mvars(FeedStep /\ UNCHANGED hist) /\ WF_mvars(Send /\ UNCHANGED hist)
Replay == (Emit /\ Quiescent) =>
            PrintT(<<"LINK", ToJson([n |-> N, target |-> Target, msgs |-> Msgs, chunks |-> hist, clean |-> got, faults |-> faults])>>)
=======================================================================
