---------------------------- MODULE MC_Acc ----------------------------
(* Environment: any chunk (over Alphabet, up to MaxChunk bytes) may be fed in any state; remainders are
   re-fed as the documentation prescribes. Because the accumulator has no state but (buf, idx), exploring
   the reachable graph covers every stream under every chunking within the bounds. Obligations about the
   edge just taken are Assert conjuncts (TLC checks invariants only on new states). Every FeedStep edge
   is printed as a vector (buffered bytes, chunk) for replay on the real CobsAccumulator. *)
EXTENDS Accumulator, Json
CONSTANTS N, Alphabet, MaxChunk, TargetName, Fit, Emit
Target == IF TargetName = "pair" THEN [k |-> "tuple", ts |-> <<[k |-> "u8"], [k |-> "bool"]>>]
          ELSE IF TargetName = "bytes" THEN [k |-> "bytes"]
          ELSE IF TargetName = "unit" THEN [k |-> "unit"]          \* a type whose encoding is empty: the bare sentinel is a valid frame
          ELSE [k |-> "u16"]
VARIABLES buf, window, seg, segOver
vars == <<buf, window, seg, segOver>>
Chunks == UNION {[1..k -> Alphabet] : k \in 1..MaxChunk}
Init == buf = <<>> /\ window = <<>> /\ seg = <<>> /\ segOver = FALSE
NewChunk == /\ window = <<>>
            /\ \E c \in Chunks : (Fit => FitsFrom(N, Len(seg), c)) /\ window' = c
            /\ UNCHANGED <<buf, seg, segOver>>
FeedStep == /\ window # <<>>
            /\ LET r == Feed(N, Target, buf, window)  g == NextSeg(window, seg, segOver, r) IN
                  /\ Assert(EdgeOK(N, Target, Fit, window, seg, segOver, r), <<"edge obligation failed", buf, window, seg, segOver, r>>)
                  \* the implementation-independent form used by trace validation accepts every edge of the model
                  /\ Assert(EdgeOKObs(N, Target, Fit, window, seg, segOver, r), <<"observable edge obligation failed", buf, window, seg, segOver, r>>)
                  /\ Emit => PrintT(<<"VEC", ToJson([n |-> N, target |-> Target, buf |-> buf, chunk |-> window])>>)
                  /\ buf' = r.buf /\ window' = r.rem /\ seg' = g.seg /\ segOver' = g.over
Next == NewChunk \/ FeedStep
Spec == Init /\ [][Next]_vars /\ WF_vars(FeedStep)

IdxBound == Len(buf) <= N
BufIsSeg == ~segOver => buf = seg
NoZeroBuffered == \A i \in 1..Len(buf) : buf[i] # 0
\* ---- progress of the documented loop (N >= 1): a well-founded measure decreases on every feed ----
Less(w2, b2, w1, b1) == Len(w2) < Len(w1) \/ (Len(w2) = Len(w1) /\ Len(b2) < Len(b1))
Progress == [][window # <<>> => Less(window', buf', window, buf)]_vars
Drains == []<>(window = <<>>)
=======================================================================
