---------------------------- MODULE MC_Crc ----------------------------
(* The "hence" of C10 on small CRCs: a frame is payload \o LE(checksum); a frame is accepted iff its last S
   bytes are the checksum of the bytes before them. For every message of the sample, every single-bit
   error and every burst (first and last bit flipped, any pattern between) no longer than the width, at
   every bit offset of the frame, is rejected. Also: feeding the digest byte by byte (pop) or block by
   block (try_take_n) gives the same register, and the catalogue check values are reproduced. *)
EXTENDS Crc, FiniteSets
CONSTANTS AlgName, MsgLen, MaxBurst, Stride        \* Stride: take every Stride-th message of the full space (1 = all)
Alg == CASE AlgName = "smbus" -> Smbus
         [] AlgName = "maxim" -> [width |-> 8, poly |-> <<49>>, init |-> <<0>>, refin |-> TRUE, refout |-> TRUE, xorout |-> <<0>>]
         [] AlgName = "xmodem" -> Xmodem
         [] AlgName = "sdlc" -> [width |-> 16, poly |-> <<33, 16>>, init |-> <<255, 255>>, refin |-> TRUE, refout |-> TRUE, xorout |-> <<255, 255>>]
S == Alg.width \div 8
VARIABLES m, off
vars == <<m, off>>
NBits == 8 * MsgLen                    \* bursts are confined to the payload; damage confined to the checksum is a separate clause
Msgs == {x \in [1..MsgLen -> 0..255] : (x[1] + 7 * (IF MsgLen > 1 THEN x[2] ELSE 0)) % Stride = 0}
Init == m \in Msgs /\ off = -1
Next == off = -1 /\ off' \in 0..(NBits - 1) /\ UNCHANGED m
Spec == Init /\ [][Next]_vars
Frame == m \o CrcLE(Alg, m, S)
Valid(f) == SubSeq(f, MsgLen + 1, MsgLen + S) = CrcLE(Alg, SubSeq(f, 1, MsgLen), S)
\* flip the bits of pattern pat (length len, bit k of pat = k-th position) starting at bit offset o
\* bit position b in the order the CRC consumes the message: MSB first unless the algorithm reflects its input
FlipBit(f, b) == [f EXCEPT ![(b \div 8) + 1] = LET v == f[(b \div 8) + 1]  w == CPow2(IF Alg.refin THEN b % 8 ELSE 7 - (b % 8)) IN IF (v \div w) % 2 = 1 THEN v - w ELSE v + w]
RECURSIVE FlipPat(_, _, _, _, _)
FlipPat(f, o, pat, k, len) == IF k = len THEN f ELSE FlipPat(IF (pat \div CPow2(k)) % 2 = 1 THEN FlipBit(f, o + k) ELSE f, o, pat, k + 1, len)
Detects == off >= 0 =>
   /\ Valid(Frame)
   /\ \A len \in 1..(IF MaxBurst < Alg.width THEN MaxBurst ELSE Alg.width) : (off + len <= NBits) =>
        \A pat \in 0..(CPow2(len) - 1) : (pat % 2 = 1 /\ pat >= CPow2(len - 1)) => ~Valid(FlipPat(Frame, off, pat, 0, len))
   \* any damage confined to the checksum (here: every other value of one checksum byte, the rest intact)
   /\ off = 0 => \A j \in 1..S : \A v \in 0..255 : v # Frame[MsgLen + j] => ~Valid([Frame EXCEPT ![MsgLen + j] = v])
BlockEqualsBytes == off = -1 => \A k \in 0..MsgLen :
   DigestUpdate(Alg, DigestUpdate(Alg, DigestInit(Alg), SubSeq(m, 1, k)), SubSeq(m, k + 1, MsgLen)) = DigestUpdate(Alg, DigestInit(Alg), m)
Catalogue == off = 0 => CatalogueOK
=======================================================================
