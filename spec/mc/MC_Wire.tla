---------------------------- MODULE MC_Wire ----------------------------
(* Exhaustive check of the wire-format operators on all shapes up to a small depth with scaled leaf
   domains: round trip with arbitrary tails, unexpected-end on every strict prefix, acceptance of
   re-padded varints, totality and tail-independence of Dec under byte substitution. Every
   (shape, value) state is also printed as a test vector (with its non-canonical encodings) that the
   harness replays on the real code. *)
EXTENDS Wire, Json, FiniteSetsExt, SequencesExt
CONSTANTS Depth,      \* 0: leaves only, 1: one constructor level, 2: a fixed list of nested shapes in addition
          MaxSeq,     \* sequence / map length bound
          Emit        \* TRUE: print VEC lines
VARIABLES sh, val, ph     \* ph = 0: shape chosen; ph = 1: value chosen (two levels so that TLC's workers share the work)
vars == <<sh, val, ph>>

K(k) == [k |-> k]
Limbs(n, bytes) == [i \in 1..bytes |-> IF i <= 3 THEN (n \div Pow2(8 * (i - 1))) % 256 ELSE 0]   \* n < 2^24
Ones(bytes) == [i \in 1..bytes |-> 255]
OneBitL(bit, bytes) == [i \in 1..bytes |-> IF (i - 1) = bit \div 8 THEN Pow2(bit % 8) ELSE 0]
LeafKinds == {"bool", "u8", "i8", "u16", "i16", "u32", "i32", "u64", "i64", "u128", "i128", "usize", "isize",
              "f32", "f64", "char", "str", "bytes", "unit", "unit_struct"}
FixShapes == {[k |-> o, w |-> IntW(i), i |-> i] : o \in {"fixle", "fixbe"}, i \in {"u16", "i16", "i32", "u64", "i128"}}
LV(s) ==
  CASE s.k = "bool" -> {0, 1}
    [] s.k \in {"u8", "i8"} -> {0, 1, 127, 128, 255}
    [] s.k \in {"u16", "i16"} -> {Limbs(n, 2) : n \in {0, 1, 63, 64, 127, 128, 16383, 16384, 32767, 32768, 65535}}
    [] s.k \in {"u32", "i32"} -> {Limbs(0, 4), Limbs(300, 4), Ones(4), OneBitL(27, 4), OneBitL(28, 4), OneBitL(31, 4)}
    [] s.k \in {"u64", "i64", "usize", "isize"} -> {Limbs(0, 8), Limbs(129, 8), Ones(8), OneBitL(62, 8), OneBitL(63, 8)}
    [] s.k \in {"u128", "i128"} -> {Limbs(0, 16), Ones(16), OneBitL(64, 16), OneBitL(125, 16), OneBitL(126, 16), OneBitL(127, 16)}
    [] s.k = "f32" -> {<<0,0,0,0>>, <<0,0,0,128>>, <<0,0,128,127>>, <<1,0,192,127>>}
    [] s.k = "f64" -> {<<0,0,0,0,0,0,0,0>>, <<1,0,0,0,0,0,248,255>>}
    [] s.k = "char" -> {<<65>>, <<0>>, <<195,169>>, <<226,130,172>>, <<240,159,152,128>>}
    [] s.k = "str" -> {<<>>, <<65>>, <<195,169,66>>, <<240,159,152,128>>}
    [] s.k = "bytes" -> {<<>>, <<0>>, <<255,1>>}
    [] s.k \in {"unit", "unit_struct"} -> {0}
    [] s.k \in {"fixle", "fixbe"} -> {Limbs(0, s.w \div 8), Ones(s.w \div 8), [i \in 1..(s.w \div 8) |-> i]}
Leaves == {K(k) : k \in LeafKinds} \cup FixShapes
SubLeaves == {K("u8"), K("u16"), K("i32"), K("str"), K("unit"), K("bool")}      \* used inside two-argument constructors
N(b) == <<b>>                                                                     \* a one-letter name
Depth1 ==
     {[k |-> c, t |-> l] : c \in {"opt", "seq", "newtype_struct"}, l \in Leaves}
  \cup {[k |-> c, ts |-> <<a, b>>] : c \in {"tuple", "tuple_struct"}, a \in SubLeaves, b \in SubLeaves}
  \cup {[k |-> "tuple", ts |-> <<>>], [k |-> "tuple", ts |-> <<K("u16")>>], [k |-> "struct", fs |-> <<>>]}
  \cup {[k |-> "struct", fs |-> <<[n |-> N(97), t |-> a], [n |-> N(98), t |-> b]>>] : a \in SubLeaves, b \in SubLeaves}
  \cup {[k |-> "map", kt |-> a, vt |-> b] : a \in {K("u8"), K("str"), K("u16")}, b \in SubLeaves}
  \cup {[k |-> "enum", vs |-> <<[n |-> N(65), d |-> K("unit")], [n |-> N(66), d |-> [k |-> "newtype", t |-> a]],
                              [n |-> N(67), d |-> [k |-> "tuple", ts |-> <<a, K("u8")>>]],
                              [n |-> N(68), d |-> [k |-> "struct", fs |-> <<[n |-> N(120), t |-> a]>>]],
                              [n |-> N(69), d |-> [k |-> "tuple", ts |-> <<>>]]>>] : a \in SubLeaves}
Depth2 == {[k |-> "opt", t |-> [k |-> "opt", t |-> K("unit")]],
           [k |-> "seq", t |-> [k |-> "seq", t |-> K("u16")]],
           [k |-> "seq", t |-> [k |-> "opt", t |-> K("str")]],
           [k |-> "map", kt |-> K("str"), vt |-> [k |-> "seq", t |-> K("u8")]],
           [k |-> "struct", fs |-> <<[n |-> N(97), t |-> [k |-> "opt", t |-> K("i16")]], [n |-> N(98), t |-> [k |-> "tuple", ts |-> <<K("f32"), K("char")>>]]>>],
           [k |-> "enum", vs |-> <<[n |-> N(65), d |-> [k |-> "newtype", t |-> [k |-> "enum", vs |-> <<[n |-> N(66), d |-> K("unit")], [n |-> N(67), d |-> [k |-> "newtype", t |-> K("u32")]]>>]]]>>],
           [k |-> "tuple", ts |-> <<[k |-> "seq", t |-> K("bool")], K("u64"), [k |-> "newtype_struct", t |-> K("bytes")]>>]}
Shapes == Leaves \cup (IF Depth >= 1 THEN Depth1 ELSE {}) \cup (IF Depth >= 2 THEN Depth2 ELSE {})

RECURSIVE Vals(_), TupVals(_)
SeqsUpTo(S, n) == UNION {[1..m -> S] : m \in 0..n}
DataVals(d) == CASE d.k = "unit" -> {0}
                 [] d.k = "newtype" -> Vals(d.t)
                 [] d.k = "tuple" -> TupVals(d.ts)
                 [] d.k = "struct" -> TupVals(FieldTs(d.fs))
Vals(s) ==
  CASE s.k = "opt" -> {[some |-> 0]} \cup {[some |-> 1, v |-> x] : x \in Vals(s.t)}
    [] s.k = "newtype_struct" -> Vals(s.t)
    [] s.k = "seq" -> SeqsUpTo(Vals(s.t), MaxSeq)
    [] s.k \in {"tuple", "tuple_struct"} -> TupVals(s.ts)
    [] s.k = "struct" -> TupVals(FieldTs(s.fs))
    [] s.k = "map" -> SeqsUpTo({<<a, b>> : a \in Vals(s.kt), b \in Vals(s.vt)}, IF MaxSeq > 1 THEN 1 ELSE MaxSeq)
    [] s.k = "enum" -> UNION {{[i |-> j - 1, v |-> x] : x \in DataVals(s.vs[j].d)} : j \in 1..Len(s.vs)}
    [] OTHER -> LV(s)
TupVals(ts) == IF ts = <<>> THEN {<<>>} ELSE {<<h>> \o t : h \in Vals(Head(ts)), t \in TupVals(Tail(ts))}

\* ---- permitted non-canonical encodings: pad a varint up to the maximum length of its type
Pad(c, k) == [i \in 1..(Len(c) + k) |-> IF i < Len(c) THEN c[i] ELSE IF i = Len(c) THEN c[i] + 128 ELSE IF i < Len(c) + k THEN 128 ELSE 0]
PadSet(c, W) == {c} \cup {Pad(c, k) : k \in {j \in {1, VarintMax(W) - Len(c)} : j >= 1 /\ j <= VarintMax(W) - Len(c)}}
RECURSIVE AllEnc(_, _), ProdAll(_, _), ProdEach(_, _), ProdPairs(_, _, _)
Cat(A, B) == {a \o b : a \in A, b \in B}
AllEncData(d, v) == CASE d.k = "unit" -> {<<>>}
                      [] d.k = "newtype" -> AllEnc(d.t, v)
                      [] d.k = "tuple" -> ProdAll(d.ts, v)
                      [] d.k = "struct" -> ProdAll(FieldTs(d.fs), v)
AllEnc(s, v) ==
  CASE IntW(s.k) # 0 -> PadSet(Enc(s, v), IntW(s.k))
    [] s.k \in {"str", "bytes", "char"} -> Cat(PadSet(SmallVar(Len(v)), 64), {v})
    [] s.k = "opt" -> IF v.some = 0 THEN {<<0>>} ELSE Cat({<<1>>}, AllEnc(s.t, v.v))
    [] s.k = "newtype_struct" -> AllEnc(s.t, v)
    [] s.k = "seq" -> Cat(PadSet(SmallVar(Len(v)), 64), ProdEach(s.t, v))
    [] s.k \in {"tuple", "tuple_struct"} -> ProdAll(s.ts, v)
    [] s.k = "struct" -> ProdAll(FieldTs(s.fs), v)
    [] s.k = "map" -> Cat(PadSet(SmallVar(Len(v)), 64), ProdPairs(s.kt, s.vt, v))
    [] s.k = "enum" -> Cat(PadSet(SmallVar(v.i), 32), AllEncData(s.vs[v.i + 1].d, v.v))
    [] OTHER -> {Enc(s, v)}
ProdAll(ts, vs) == IF ts = <<>> THEN {<<>>} ELSE Cat(AllEnc(Head(ts), Head(vs)), ProdAll(Tail(ts), Tail(vs)))
ProdEach(t, vs) == IF vs = <<>> THEN {<<>>} ELSE Cat(AllEnc(t, Head(vs)), ProdEach(t, Tail(vs)))
ProdPairs(kt, vt, ps) == IF ps = <<>> THEN {<<>>} ELSE Cat(Cat(AllEnc(kt, Head(ps)[1]), AllEnc(vt, Head(ps)[2])), ProdPairs(kt, vt, Tail(ps)))

Init == sh \in Shapes /\ val = 0 /\ ph = 0
Next == ph = 0 /\ ph' = 1 /\ val' \in Vals(sh) /\ UNCHANGED sh
Spec == Init /\ [][Next]_vars

Tails == {<<>>, <<0>>, <<255, 1>>}
SubAlpha == {0, 1, 2, 127, 128, 255}
E == Enc(sh, val)
RoundTrip == ph = 1 => \A t \in Tails : LET r == Dec(sh, E \o t, 0) IN r.ok /\ r.v = val /\ r.pos = Len(E)
PrefixEnd == ph = 1 => \A k \in 0..(Len(E) - 1) : Dec(sh, SubSeq(E, 1, k), 0) = Err("End")
PaddedAccepted == ph = 1 => \A e \in AllEnc(sh, val) : LET r == Dec(sh, e \o <<7>>, 0) IN r.ok /\ r.v = val /\ r.pos = Len(e)
\* whatever Dec accepts re-encodes canonically to something no longer, which decodes to the same value;
\* and the outcome does not depend on bytes after the consumed prefix
SubstSound == ph = 1 => \A i \in 1..Len(E) : \A b \in SubAlpha :
    LET m == [E EXCEPT ![i] = b]  r == Dec(sh, m, 0) IN
    IF r.ok THEN /\ r.pos <= Len(m)
                 /\ LET c == Enc(sh, r.v)  r2 == Dec(sh, c, 0) IN Len(c) <= r.pos /\ r2.ok /\ r2.v = r.v /\ r2.pos = Len(c)
                 /\ LET r3 == Dec(sh, SubSeq(m, 1, r.pos) \o <<255>>, 0) IN r3.ok /\ r3.v = r.v /\ r3.pos = r.pos
    ELSE r.err \in {"End", "BadVarint", "BadBool", "BadOption", "BadUtf8", "BadChar", "Custom"}
\* block reads lie inside the consumed prefix, in order, without overlap
TakesOrdered == ph = 1 => LET r == Dec(sh, E, 0) IN
    \A i \in 1..Len(r.tk) : /\ r.tk[i].at + r.tk[i].n <= r.pos
                            /\ i > 1 => r.tk[i-1].at + r.tk[i-1].n <= r.tk[i].at
\* the UTF-8 encoder used by the char-domain trace agrees with the well-formedness table on boundary and strided code points
CpSample == (0..2304) \cup (55040..57600) \cup (65280..65792) \cup (1113856..1114112) \cup {997 * k : k \in 0..1117}
Utf8Model == (ph = 0 /\ sh = K("bool")) =>
   \A cp \in CpSample : /\ (IsScalar(cp) => (OneScalar(Utf8Enc(cp)) /\ Utf8Valid(Utf8Enc(cp)) /\ Len(Utf8Enc(cp)) = (IF cp < 128 THEN 1 ELSE IF cp < 2048 THEN 2 ELSE IF cp < 65536 THEN 3 ELSE 4)))
                          /\ ((~IsScalar(cp) /\ cp < 1114112) => ~Utf8Valid(Utf8Enc(cp)))          \* surrogates are not encodable
Vec == (Emit /\ ph = 1) => PrintT(<<"VEC", ToJson([shape |-> sh, value |-> val, encs |-> SetToSeq(AllEnc(sh, val) \ {E})])>>)
=============================================================================
