---------------------------- MODULE MC_DePipe ----------------------------
(* The cursor machines under arbitrary call sequences with arbitrary (also astronomically large) counts:
   the cursor never leaves the input, a block is handed out iff it lies inside the remaining input, blocks
   are consecutive; for the reader variant the scratch slots are consecutive and disjoint and the stream is
   never read beyond what the calls asked for. *)
EXTENDS DePipe, TLC
CONSTANTS MaxIn, MaxScratch, Depth
Counts == {<<0,0,0,0,0,0,0,0>>, <<1,0,0,0,0,0,0,0>>, <<2,0,0,0,0,0,0,0>>, <<3,0,0,0,0,0,0,0>>, <<5,0,0,0,0,0,0,0>>,
           <<0,0,0,128,0,0,0,0>>, <<255,255,255,255,255,255,255,255>>, <<0,0,0,0,0,0,0,128>>}
VARIABLES kind, n, m, pos, sc, steps, lastOff, lastLen, asked
vars == <<kind, n, m, pos, sc, steps, lastOff, lastLen, asked>>
Init == /\ kind \in {"slice", "reader"} /\ n \in 0..MaxIn /\ m \in 0..MaxScratch /\ pos = 0 /\ sc = 0 /\ steps = 0
        /\ lastOff = 0 /\ lastLen = 0 /\ asked = 0
Input == [i \in 1..n |-> i]
Pop == /\ steps < Depth /\ steps' = steps + 1
       /\ IF kind = "slice" THEN pos' = SlPop(Input, pos).pos /\ asked' = asked
          ELSE pos' = RdPop(n, pos).rd /\ asked' = asked + 1
       /\ UNCHANGED <<kind, n, m, sc, lastOff, lastLen>>
Take == /\ steps < Depth /\ steps' = steps + 1
        /\ \E ct \in Counts :
             IF kind = "slice" THEN
                LET r == SlTake(Input, pos, ct) IN
                /\ pos' = r.pos /\ UNCHANGED <<sc, asked>>
                /\ IF r.ok THEN lastOff' = r.off /\ lastLen' = r.len /\ Assert(r.off = pos /\ r.off + r.len <= n, "block outside input")
                   ELSE UNCHANGED <<lastOff, lastLen>>
             ELSE
                LET r == RdTake(n, m, pos, sc, ct) IN
                /\ pos' = r.rd /\ sc' = (IF r.ok THEN r.sc ELSE sc) /\ asked' = asked + (IF LeqSmall(ct, m - sc) THEN ToInt(ct) ELSE 0)
                /\ IF r.ok THEN lastOff' = r.off /\ lastLen' = r.len /\ Assert(r.off = sc /\ r.off + r.len <= m, "slot outside scratch")
                   ELSE UNCHANGED <<lastOff, lastLen>>
        /\ UNCHANGED <<kind, n, m>>
Next == Pop \/ Take
Spec == Init /\ [][Next]_vars
InBounds == pos <= n /\ sc <= m
NoOverRead == kind = "reader" => pos <= asked          \* never more consumed from the stream than was asked for
=============================================================================
