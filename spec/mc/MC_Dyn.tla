---------------------------- MODULE MC_Dyn ----------------------------
(* The scope of C17 is well-chosen: on every shape of MC_Wire's population, two different in-scope values never
   have the same JSON form (otherwise "decoding yields exactly the serde_json representation of the value" could
   not identify the value and the property would be unsatisfiable or vacuous), the JSON form of an in-scope value
   is null only for unit-like shapes, and JsonOf never mentions anything outside the value (its size is bounded
   by the value's). Out-of-scope examples the predicate must exclude are asserted too. *)
EXTENDS MC_Wire, Dyn
(* TLC orders record fields by the order in which their names were first interned, and compares records field by
   field in that order. Enum values are [i |-> variant, v |-> payload] with payloads of different TLA+ types per
   variant, so "i" has to be compared first (it always differs when the payload types do). This module is parsed
   before the ones it extends; the definition below only fixes that order and is otherwise unused. *)
FieldOrder == [k |-> 0, t |-> 0, i |-> 0, v |-> 0]     \* likewise the tag "t" of a JSON form before its content "v"
\* shapes around the ambiguity the statement's quantifier excludes (null inside Option, arities 0 and 1, unit payloads)
O(t) == [k |-> "opt", t |-> t]
DynShapes == {O(O(K("u8"))), O(K("unit")), O(K("unit_struct")), O([k |-> "newtype_struct", t |-> K("unit")]), O(O(O(K("bool")))),
              [k |-> "seq", t |-> O(K("unit"))], [k |-> "seq", t |-> O(O(K("bool")))],
              [k |-> "tuple", ts |-> <<>>], [k |-> "tuple", ts |-> <<O(K("u8"))>>], [k |-> "tuple_struct", ts |-> <<K("u8"), K("bool")>>],
              [k |-> "tuple_struct", ts |-> <<K("u8")>>], [k |-> "tuple_struct", ts |-> <<>>],
              [k |-> "map", kt |-> K("str"), vt |-> O(K("u8"))], [k |-> "map", kt |-> K("char"), vt |-> K("u8")], [k |-> "map", kt |-> K("u8"), vt |-> K("u8")],
              [k |-> "struct", fs |-> <<[n |-> N(97), t |-> O(K("bool"))], [n |-> N(98), t |-> O(O(K("bool")))]>>],
              [k |-> "enum", vs |-> <<[n |-> N(65), d |-> K("unit")], [n |-> N(66), d |-> [k |-> "newtype", t |-> K("unit")]],
                                      [n |-> N(67), d |-> [k |-> "newtype", t |-> O(K("bool"))]], [n |-> N(68), d |-> [k |-> "tuple", ts |-> <<>>]],
                                      [n |-> N(69), d |-> [k |-> "tuple", ts |-> <<K("bool")>>]], [n |-> N(70), d |-> [k |-> "struct", fs |-> <<>>]]>>],
              O([k |-> "enum", vs |-> <<[n |-> N(65), d |-> K("unit")], [n |-> N(66), d |-> [k |-> "newtype", t |-> K("str")]]>>]),
              O(K("i128")), O(K("u128")), O(K("f32")), [k |-> "seq", t |-> K("f64")]}
DInit == ph = 0 /\ val = 0 /\ sh \in {s \in Shapes : ~IsFix(s.k)} \cup DynShapes
DNext == ph = 0 /\ ph' = 1 /\ val' \in {v \in Vals(sh) : Unamb(sh, v)} /\ UNCHANGED sh
InScope == {v \in Vals(sh) : Unamb(sh, v)}
ScopeInjective == ph = 1 => \A b \in InScope : JsonOf(sh, val) = JsonOf(sh, b) => Enc(sh, val) = Enc(sh, b)      \* Enc is injective (RoundTrip); byte strings compare without type clashes
\* inside Option, an in-scope payload is never null (the ambiguity the quantifier excludes)
OptionPayloadNotNull == (ph = 1 /\ sh.k = "opt" /\ val.some = 1) => JsonOf(sh, val) # JNull
\* the examples named by the statement's quantifier are indeed out of scope / in scope
Examples == (ph = 0 /\ sh = K("bool")) =>
   /\ ~Unamb([k |-> "opt", t |-> K("unit")], [some |-> 1, v |-> 0])                                  \* Some(()) would be null
   /\ ~Unamb([k |-> "opt", t |-> [k |-> "opt", t |-> K("u8")]], [some |-> 1, v |-> [some |-> 0]])      \* Some(None)
   /\ Unamb([k |-> "opt", t |-> [k |-> "opt", t |-> K("u8")]], [some |-> 1, v |-> [some |-> 1, v |-> 5]])
   /\ ~Unamb(K("f64"), <<0,0,0,0,0,0,240,127>>)                                                       \* +inf
   /\ ~Unamb(K("u128"), [i \in 1..16 |-> 255])                                                        \* beyond u64
   /\ Unamb(K("i128"), [i \in 1..16 |-> 255])                                                         \* -1 fits i64
   /\ ~Unamb([k |-> "map", kt |-> K("u8"), vt |-> K("u8")], <<>>)                                     \* non-string keys
   /\ ~Unamb([k |-> "map", kt |-> K("str"), vt |-> K("u8")], << <<<<98>>, 1>>, <<<<97>>, 2>> >>)       \* keys not ascending
   /\ Unamb([k |-> "map", kt |-> K("str"), vt |-> K("u8")], << <<<<97>>, 1>>, <<<<98>>, 2>> >>)
   /\ Unamb([k |-> "tuple", ts |-> <<K("u8")>>], <<5>>) /\ Unamb([k |-> "tuple", ts |-> <<>>], <<>>)     \* plain tuples of arity 1 and 0 are in scope
   /\ ~Unamb([k |-> "tuple_struct", ts |-> <<K("u8")>>], <<5>>)                                        \* one unnamed field is a newtype by convention
=======================================================================
