---------------------------- MODULE MC_Varint ----------------------------
(* The varint writer loop (varint.rs) and reader loop (deserializer.rs, try_take_varint_uN) as step
   machines, checked against the functional definitions Canon / ReadVarint written from
   wire-format.md. Width-parametric: the real widths 16/32/64/128 and scaled widths share one model. *)
EXTENDS Wire
CONSTANTS W,          \* bit width
          Full,       \* TRUE: writer values = every W-bit value; FALSE: boundary-structured bit vectors
          RAlpha,     \* reader alphabet (set of bytes)
          RMaxLen     \* reader input length bound
VARIABLES mode, inp, st
vars == <<mode, inp, st>>
IntBits(v) == [i \in 0..(W-1) |-> (v \div Pow2(i)) % 2]
OneBit(k) == [i \in 0..(W-1) |-> IF i = k THEN 1 ELSE 0]
LowOnes(k) == [i \in 0..(W-1) |-> IF i < k THEN 1 ELSE 0]
HighOnes(k) == [i \in 0..(W-1) |-> IF i >= k THEN 1 ELSE 0]
BitAnd0(k) == [i \in 0..(W-1) |-> IF i = k \/ i = 0 THEN 1 ELSE 0]
WVals == IF Full THEN {IntBits(v) : v \in 0..(Pow2(W) - 1)}
         ELSE {OneBit(k) : k \in 0..(W-1)} \cup {LowOnes(k) : k \in 0..W} \cup {HighOnes(k) : k \in 0..W} \cup {BitAnd0(k) : k \in 0..(W-1)}
Fill(c, n) == [i \in 1..n |-> c]
RInputs == IF Full THEN UNION {[1..n -> RAlpha] : n \in 0..RMaxLen}
           ELSE LET P == {Fill(c, n) : c \in {128, 129, 255}, n \in 0..(VarintMax(W) + 1)}      \* continuation-byte prefixes of every length
                IN P \cup {Append(p, b) : p \in P, b \in RAlpha} \cup {p \o <<b, 85>> : p \in P, b \in RAlpha}

Init == \/ mode = "w" /\ inp \in WVals /\ st = WInit(inp)
        \/ mode = "r" /\ inp \in RInputs /\ st = RInit(W)
Next == \/ mode = "w" /\ ~st.done /\ st' = WStep(st, W) /\ UNCHANGED <<mode, inp>>
        \/ mode = "r" /\ st.status = "run" /\ st' = RStep(st, W, IF st.i < Len(inp) THEN inp[st.i + 1] ELSE -1) /\ UNCHANGED <<mode, inp>>
Spec == Init /\ [][Next]_vars

WriterBound == mode = "w" => st.i <= VarintMax(W) /\ Len(st.out) <= VarintMax(W)
WriterOK == (mode = "w" /\ st.done) =>
   LET o == st.out  n == Len(o)  r == ReadVarint(o, W) IN
   /\ o = Canon(inp, W)
   /\ n >= 1 /\ n <= VarintMax(W)
   /\ \A i \in 1..(n-1) : o[i] >= 128
   /\ o[n] < 128
   /\ n > 1 => o[n] # 0                                 \* minimal length
   /\ r.ok /\ r.bits = inp /\ r.used = n                 \* decodes back, consuming exactly itself
ReaderBound == mode = "r" => st.i <= VarintMax(W) /\ st.used <= Len(inp)
ReaderOK == (mode = "r" /\ st.status # "run") =>
   LET r == ReadVarint(inp, W) IN
   /\ r.ok <=> st.status = "ok"
   /\ r.ok => st.acc = r.bits /\ st.used = r.used
   /\ ~r.ok => st.status = r.err
\* strict prefixes of accepted strings yield End; the remainder never matters
PrefixTail == (mode = "r" /\ st.status = "ok") =>
   /\ \A k \in 0..(st.used - 1) : ReadVarint(SubSeq(inp, 1, k), W) = [ok |-> FALSE, err |-> "End"]
   /\ ReadVarint(SubSeq(inp, 1, st.used), W) = ReadVarint(inp, W)
ZigZagOK == mode = "w" => /\ UnZigZag(ZigZag(inp, W), W) = inp
                          /\ ZigZag(UnZigZag(inp, W), W) = inp
\* published examples (wire-format.md), evaluated once in the initial-state invariant pass
B16(v) == [i \in 0..15 |-> (v \div Pow2(i)) % 2]
Tables ==
  /\ Canon(B16(0), 16) = <<0>> /\ Canon(B16(127), 16) = <<127>> /\ Canon(B16(128), 16) = <<128, 1>>
  /\ Canon(B16(16383), 16) = <<255, 127>> /\ Canon(B16(16384), 16) = <<128, 128, 1>>
  /\ Canon(B16(16385), 16) = <<129, 128, 1>> /\ Canon(B16(65535), 16) = <<255, 255, 3>>
  /\ Canon(ZigZag(B16(0), 16), 16) = <<0>> /\ Canon(ZigZag(B16(65535), 16), 16) = <<1>>          \* -1
  /\ Canon(ZigZag(B16(1), 16), 16) = <<2>> /\ Canon(ZigZag(B16(63), 16), 16) = <<126>>
  /\ Canon(ZigZag(B16(65472), 16), 16) = <<127>>                                                 \* -64
  /\ Canon(ZigZag(B16(64), 16), 16) = <<128, 1>> /\ Canon(ZigZag(B16(65471), 16), 16) = <<129, 1>>   \* -65
  /\ Canon(ZigZag(B16(32767), 16), 16) = <<254, 255, 3>> /\ Canon(ZigZag(B16(32768), 16), 16) = <<255, 255, 3>>
  /\ VarintMax(16) = 3 /\ VarintMax(32) = 5 /\ VarintMax(64) = 10 /\ VarintMax(128) = 19
  /\ ReadVarint(<<0>>, 16).ok /\ ReadVarint(<<128, 0>>, 16).ok /\ ReadVarint(<<128, 128, 0>>, 16).ok
  /\ ReadVarint(<<128, 128, 128, 0>>, 16) = [ok |-> FALSE, err |-> "BadVarint"]
  /\ ReadVarint(<<255, 255, 3>>, 16).ok /\ ReadVarint(<<255, 255, 7>>, 16) = [ok |-> FALSE, err |-> "BadVarint"]
  /\ ReadVarint(<<255, 255, 131, 0>>, 16) = [ok |-> FALSE, err |-> "BadVarint"]
TablesInv == Tables
=============================================================================
