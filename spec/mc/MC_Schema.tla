---------------------------- MODULE MC_Schema ----------------------------
(* All schema trees up to a small depth over a reduced child alphabet: the schema-of-schema encoder and
   parser are mutually inverse (C15); the key stream ignores struct/enum type names but separates every
   single-node mutation, and FNV-1a separates all distinct streams of the enumerated set (C16); the
   used-type set contains the tree and is closed under children (C19). Every tree is also printed as a
   vector (with a path) that the harness executes on the real serialisers and hashers. *)
EXTENDS SchemaModel, Json, FiniteSetsExt
CONSTANTS Depth, Emit
VARIABLE t
P(k) == [k |-> k]
Prims == {P(k) : k \in {"Bool","I8","U8","I16","I32","I64","I128","U16","U32","U64","U128","Usize","Isize","F32","F64","Char","String","ByteArray","Unit","Schema"}}
C0 == {P("U8"), P("String"), P("Usize")}
Names == {<<>>, <<97>>, <<98, 195, 169>>}
FNames == {<<97>>, <<98>>}
SeqsUpTo(S, n) == UNION {[1..m -> S] : m \in 0..n}
DataOver(C) == {[k |-> "Unit"]} \cup {[k |-> "Newtype", t |-> c] : c \in C} \cup {[k |-> "Tuple", ts |-> s] : s \in SeqsUpTo(C, 2)}
               \cup {[k |-> "Struct", fs |-> s] : s \in SeqsUpTo({[name |-> n, ty |-> c] : n \in FNames, c \in C}, 2)}
SmallData(C) == {[k |-> "Unit"], [k |-> "Newtype", t |-> P("U8")], [k |-> "Tuple", ts |-> <<P("U8"), P("String")>>], [k |-> "Tuple", ts |-> <<>>],
                 [k |-> "Struct", fs |-> <<[name |-> <<97>>, ty |-> P("U8")]>>]} \cup {[k |-> "Newtype", t |-> c] : c \in C}
Level(C) == {[k |-> "Option", t |-> c] : c \in C} \cup {[k |-> "Seq", t |-> c] : c \in C}
            \cup {[k |-> "Tuple", ts |-> s] : s \in SeqsUpTo(C, 2)}
            \cup {[k |-> "Map", key |-> a, val |-> b] : a \in C, b \in C}
            \cup {[k |-> "Struct", name |-> n, data |-> d] : n \in Names, d \in DataOver(C)}
            \cup {[k |-> "Enum", name |-> n, variants |-> vs] : n \in {<<>>, <<69>>}, vs \in SeqsUpTo({[name |-> vn, data |-> d] : vn \in FNames, d \in SmallData(C)}, 2)}
D1 == Level(C0)
C1 == {[k |-> "Option", t |-> P("U8")], [k |-> "Tuple", ts |-> <<P("U8"), P("String")>>],
       [k |-> "Struct", name |-> <<97>>, data |-> [k |-> "Struct", fs |-> <<[name |-> <<98>>, ty |-> P("Usize")]>>]],
       [k |-> "Enum", name |-> <<69>>, variants |-> <<[name |-> <<97>>, data |-> [k |-> "Unit"]], [name |-> <<98>>, data |-> [k |-> "Newtype", t |-> P("Schema")]]>>]}
Trees == Prims \cup D1 \cup (IF Depth >= 2 THEN Level(C1) ELSE {})
Paths == {<<>>, <<112, 47, 113>>}
Init == t \in Trees
Next == UNCHANGED t
Spec == Init /\ [][Next]_t

MetaRoundTrip == LET e == EncSchema(t)  d == DecMeta(e \o <<7>>, 0) IN d.ok /\ d.t = t /\ d.pos = Len(e)
Rename(x) == IF x.k \in {"Struct", "Enum"} THEN [x EXCEPT !.name = @ \o <<90>>] ELSE x
RenameInsensitive == KS(Rename(t)) = KS(t) /\ Key(<<112>>, Rename(t)) = Key(<<112>>, t)
\* single-node mutants of the root
Mutants == CASE t.k = "Option" -> {[t EXCEPT !.k = "Seq"]}
             [] t.k = "Seq" -> {[t EXCEPT !.k = "Option"]}
             [] t.k = "Map" -> IF t.key # t.val THEN {[t EXCEPT !.key = t.val, !.val = t.key]} ELSE {}
             [] t.k = "Tuple" -> (IF Len(t.ts) = 2 /\ t.ts[1] # t.ts[2] THEN {[t EXCEPT !.ts = <<t.ts[2], t.ts[1]>>]} ELSE {})
                                 \cup {[t EXCEPT !.ts = Append(t.ts, P("Bool"))]}
             [] t.k = "Struct" -> (IF t.data.k = "Struct" /\ Len(t.data.fs) >= 1
                                   THEN {[t EXCEPT !.data.fs[1].name = @ \o <<113>>], [t EXCEPT !.data.fs[1].ty = P("Bool")]} ELSE {})
                                  \cup (IF t.data.k = "Struct" /\ Len(t.data.fs) = 2 /\ t.data.fs[1] # t.data.fs[2]
                                        THEN {[t EXCEPT !.data.fs = <<t.data.fs[2], t.data.fs[1]>>]} ELSE {})
                                  \cup (IF t.data.k = "Unit" THEN {[t EXCEPT !.data = [k |-> "Tuple", ts |-> <<>>]]} ELSE {})
             [] t.k = "Enum" -> (IF Len(t.variants) >= 1 THEN {[t EXCEPT !.variants[1].name = @ \o <<113>>]} ELSE {})
                                \cup (IF Len(t.variants) = 2 /\ t.variants[1] # t.variants[2] THEN {[t EXCEPT !.variants = <<t.variants[2], t.variants[1]>>]} ELSE {})
             [] OTHER -> {x \in Prims : x # t}
Sensitive == \A m \in Mutants : KS(m) # KS(t) /\ Key(<<112>>, m) # Key(<<112>>, t) /\ Key(<<113>>, t) # Key(<<112>>, t)
SubtreeLaws == /\ t \in Subtrees(t)
               /\ \A s \in Subtrees(t) : Subtrees(s) \subseteq Subtrees(t)
               /\ (t.k \in {"Option", "Seq"} => t.t \in Subtrees(t))
               /\ (t.k = "Map" => t.key \in Subtrees(t) /\ t.val \in Subtrees(t))
\* FNV-1a separates all distinct streams of the enumerated set (evaluated once, on one designated state)
NoCollision == t = P("Bool") =>
   LET streams == {<<112>> \o KS(x) : x \in Trees} IN Cardinality({Fnv1a64(s) : s \in streams}) = Cardinality(streams)
\* the repository's pinned key: Bar { a: u32, b: String } ... documented stream at "test_path" is checked by the harness corpus instead
Vec == Emit => \A p \in Paths : PrintT(<<"VEC", ToJson([tree |-> t, path |-> p])>>)
===========================================================================
