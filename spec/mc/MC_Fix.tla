---------------------------- MODULE MC_Fix ----------------------------
(* Fixed-width adapters (C13): for the entire 16-bit domain and structured wider values the encoding is
   exactly the integer's bytes in the chosen order - W/8 bytes, never a varint - and Dec inverts it. *)
EXTENDS Wire
VARIABLES sh, val
vars == <<sh, val>>
Pat(w) == LET n == w \div 8 IN
   {[i \in 1..n |-> 0], [i \in 1..n |-> 255], [i \in 1..n |-> i], [i \in 1..n |-> 16 * i + 1]}
   \cup {[i \in 1..n |-> IF i = p THEN b ELSE 0] : p \in 1..n, b \in {1, 127, 128, 255}}
Init == /\ sh \in {[k |-> o, w |-> w, i |-> "x"] : o \in {"fixle", "fixbe"}, w \in {16, 32, 64, 128}}
        /\ val \in (IF sh.w = 16 THEN {<<a, b>> : a \in 0..255, b \in 0..255} ELSE Pat(sh.w))
Next == UNCHANGED vars
Spec == Init /\ [][Next]_vars
FixOK == LET e == Enc(sh, val)  n == sh.w \div 8  r == Dec(sh, e \o <<9>>, 0) IN
   /\ Len(e) = n
   /\ \A i \in 1..n : e[i] = (IF sh.k = "fixle" THEN val[i] ELSE val[n + 1 - i])
   /\ r.ok /\ r.v = val /\ r.pos = n
   /\ \A c \in 0..(n - 1) : Dec(sh, SubSeq(e, 1, c), 0) = Err("End")
=======================================================================
