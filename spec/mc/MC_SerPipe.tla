---------------------------- MODULE MC_SerPipe ----------------------------
(* Every message (as a sequence of blocks) x every emit-mode choice x every capacity x every stack:
   the pipeline machine never writes outside the store, succeeds exactly when the capacity is at least
   the length of the functional output, and then holds exactly that output (C05, C06 encoder side, C20).
   COBS is scaled (MR) so that the "full block" case is reachable with short messages; CRC-8 keeps the
   digest cheap. *)
EXTENDS SerPipe
CONSTANTS MR, Alphabet, MaxLen, MaxCap, StackNames
Crc8 == [l |-> "crc", alg |-> Smbus, s |-> 1]
CobsL == [l |-> "cobs"]
StackOf(n) == CASE n = "plain" -> <<>> [] n = "cobs" -> <<CobsL>> [] n = "crc" -> <<Crc8>> [] n = "crc+cobs" -> <<Crc8, CobsL>>
VARIABLES msg, todo, p, stack, phase, sent     \* phase: "run" | "ok" | "err"
vars == <<msg, todo, p, stack, phase, sent>>
Msgs == UNION {[1..k -> Alphabet] : k \in 0..MaxLen}
Init == /\ msg \in Msgs /\ todo = msg /\ sent = <<>>
        /\ \E n \in StackNames : \E c \in 0..MaxCap :
              /\ stack = StackOf(n)
              /\ p = PipeInit(StackOf(n), c, MR)
              /\ phase = IF PipeInit(StackOf(n), c, MR).st.full THEN "err" ELSE "run"
\* the serializer hands the next k bytes either as single pushes or as one block
Emit == /\ phase = "run" /\ todo # <<>>
        /\ \E k \in 1..Len(todo) : \E mode \in {"push", "extend"} :
             LET blk == SubSeq(todo, 1, k)
                 q == IF mode = "push" THEN PushAllAt(stack, 1, p, blk, MR) ELSE ExtendTop(stack, p, blk, MR)
             IN /\ (mode = "push" => k = 1)
                /\ p' = q /\ todo' = SubSeq(todo, k + 1, Len(todo)) /\ sent' = sent \o blk
                /\ phase' = IF q.st.full THEN "err" ELSE "run"
        /\ UNCHANGED <<msg, stack>>
Fin == /\ phase = "run" /\ todo = <<>>
       /\ LET q == FinalizeAt(stack, 1, p, MR) IN p' = q /\ phase' = IF q.st.full THEN "err" ELSE "ok"
       /\ UNCHANGED <<msg, todo, stack, sent>>
Next == Emit \/ Fin
Spec == Init /\ [][Next]_vars

F == FullMR(stack, msg, MR)
InBounds == p.st.cap >= 0 => Len(p.st.buf) <= p.st.cap
PatchBelowCursor == (phase = "run" /\ HasL(stack, "cobs")) => p.enc.code < Len(p.st.buf) /\ p.enc.code + p.enc.off = Len(p.st.buf)
SentPrefix == sent \o todo = msg
Threshold == /\ phase = "ok" => p.st.buf = F
             /\ phase = "err" => p.st.cap < Len(F)
             /\ phase \in {"ok", "err"} => (phase = "ok" <=> p.st.cap >= Len(F))
\* COBS frame shape (C06): exactly one zero, the last byte; decodes back; length formula
CobsShape == (phase = "ok" /\ stack = <<CobsL>>) =>
   LET b == p.st.buf  d == CobsDec(SubSeq(b, 1, Len(b) - 1), MR)  nz == \A i \in 1..Len(msg) : msg[i] # 0 IN
   /\ b[Len(b)] = 0 /\ \A i \in 1..(Len(b) - 1) : b[i] # 0
   /\ d.ok /\ d.out = msg
   /\ Len(b) <= Len(msg) + (Len(msg) \div MR) + 2
   /\ nz => Len(b) = Len(msg) + (Len(msg) \div MR) + 2
=============================================================================
