---------------------------- MODULE DePipe ----------------------------
(* The deserialisation flavours as cursor machines.
   Slice cursor: state = position in the input. pop / try_take_n(ct) / size_hint / finalize.
   ct is an arbitrary usize, represented as 8 little-endian byte limbs (TLC integers are 32-bit).
   Reader + sliding scratch: state = (bytes consumed from the stream, scratch bytes handed out). *)
EXTENDS Base
\* ct <= k for a small integer k
LeqSmall(ct, k) == IsSmall(ct) /\ ToInt(ct) <= k
\* ---------------- slice ----------------
SlPop(input, pos) == IF pos >= Len(input) THEN [ok |-> FALSE, pos |-> pos] ELSE [ok |-> TRUE, byte |-> input[pos + 1], pos |-> pos + 1]
SlTake(input, pos, ct) == IF LeqSmall(ct, Len(input) - pos) THEN [ok |-> TRUE, off |-> pos, len |-> ToInt(ct), pos |-> pos + ToInt(ct)]
                          ELSE [ok |-> FALSE, pos |-> pos]
SlHint(input, pos) == Len(input) - pos
SlFinal(input, pos) == [off |-> pos, len |-> Len(input) - pos]
\* ---------------- reader with sliding scratch ----------------
\* rd = bytes already read from the stream (stream length n), sc = scratch bytes already handed out (scratch length m)
RdPop(n, rd) == IF rd >= n THEN [ok |-> FALSE, rd |-> rd] ELSE [ok |-> TRUE, rd |-> rd + 1]
\* try_take_n: first the scratch must have room (else End without touching the stream), then read_exact(ct)
RdTake(n, m, rd, sc, ct) ==
  IF ~LeqSmall(ct, m - sc) THEN [ok |-> FALSE, rd |-> rd, sc |-> sc, read |-> 0]
  ELSE LET k == ToInt(ct) IN
       IF k > n - rd THEN [ok |-> FALSE, rd |-> n, sc |-> sc + k, read |-> n - rd]        \* stream ends inside the block
       ELSE [ok |-> TRUE, rd |-> rd + k, sc |-> sc + k, off |-> sc, len |-> k, read |-> k]
=======================================================================
