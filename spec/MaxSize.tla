---------------------------- MODULE MaxSize ----------------------------
(* The structural supremum of the encoded length of a shape (C12). Shapes are Wire shapes extended with
   fixed-capacity containers: [k |-> "hvec", t, cap] (heapless::Vec<T, cap>) and [k |-> "hstr", cap]
   (heapless::String<cap>). Unbounded kinds (str, bytes, seq, map) have no supremum and do not occur. *)
EXTENDS Wire, FiniteSetsExt
VarintLen(n) == Len(SmallVar(n))                 \* n < 2^24
RECURSIVE SupLen(_), SupAll(_, _), SupData(_)
SupAll(ts, i) == IF i > Len(ts) THEN 0 ELSE SupLen(ts[i]) + SupAll(ts, i + 1)
SupData(d) == CASE d.k = "unit" -> 0 [] d.k = "newtype" -> SupLen(d.t) [] d.k = "tuple" -> SupAll(d.ts, 1) [] d.k = "struct" -> SupAll(FieldTs(d.fs), 1)
SupLen(s) ==
  CASE s.k \in {"bool", "u8", "i8"} -> 1
    [] IntW(s.k) # 0 -> VarintMax(IntW(s.k))
    [] s.k = "f32" -> 4 [] s.k = "f64" -> 8
    [] s.k = "char" -> 5
    [] s.k \in {"unit", "unit_struct"} -> 0
    [] s.k = "opt" -> 1 + SupLen(s.t)
    [] s.k = "newtype_struct" -> SupLen(s.t)
    [] s.k \in {"tuple", "tuple_struct"} -> SupAll(s.ts, 1)
    [] s.k = "struct" -> SupAll(FieldTs(s.fs), 1)
    [] s.k = "enum" -> IF s.vs = <<>> THEN 0 ELSE VarintLen(Len(s.vs) - 1) + Max({SupData(s.vs[i].d) : i \in 1..Len(s.vs)})
    [] s.k = "hvec" -> VarintLen(s.cap) + s.cap * SupLen(s.t)
    [] s.k = "hstr" -> VarintLen(s.cap) + s.cap
\* kinds for which the statement claims the declared maximum is attained
RECURSIVE TightKind(_)
TightKind(s) ==
  CASE s.k \in {"bool", "u8", "i8", "f32", "f64", "char", "hstr"} -> TRUE
    [] IntW(s.k) # 0 -> TRUE
    [] s.k = "opt" -> TightKind(s.t)
    [] s.k = "tuple" -> \A i \in 1..Len(s.ts) : TightKind(s.ts[i])
    [] s.k = "hvec" -> TightKind(s.t)
    [] OTHER -> FALSE
\* the same shape as a plain Wire shape (fixed-capacity containers are sequences / strings on the wire)
RECURSIVE AsWire(_), AsWireD(_)
AsWireD(d) == CASE d.k = "newtype" -> [d EXCEPT !.t = AsWire(d.t)]
                [] d.k = "tuple" -> [d EXCEPT !.ts = [i \in 1..Len(d.ts) |-> AsWire(d.ts[i])]]
                [] d.k = "struct" -> [d EXCEPT !.fs = [i \in 1..Len(d.fs) |-> [n |-> d.fs[i].n, t |-> AsWire(d.fs[i].t)]]]
                [] OTHER -> d
AsWire(s) ==
  CASE s.k = "hvec" -> [k |-> "seq", t |-> AsWire(s.t)]
    [] s.k = "hstr" -> [k |-> "str"]
    [] s.k \in {"opt", "newtype_struct"} -> [s EXCEPT !.t = AsWire(s.t)]
    [] s.k \in {"tuple", "tuple_struct"} -> [s EXCEPT !.ts = [i \in 1..Len(s.ts) |-> AsWire(s.ts[i])]]
    [] s.k = "struct" -> [s EXCEPT !.fs = [i \in 1..Len(s.fs) |-> [n |-> s.fs[i].n, t |-> AsWire(s.fs[i].t)]]]
    [] s.k = "enum" -> [s EXCEPT !.vs = [i \in 1..Len(s.vs) |-> [n |-> s.vs[i].n, d |-> AsWireD(s.vs[i].d)]]]
    [] OTHER -> s
=========================================================================
