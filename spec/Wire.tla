---------------------------- MODULE Wire ----------------------------
(* The postcard wire format (spec/src/wire-format.md) as recursive operators over shape/value trees.
   Shapes: [k |-> kind, ...]; values mirror them (see DESIGN.md 2.2). Wide integers are LE byte limbs,
   floats their IEEE bit patterns as LE bytes, chars/strings UTF-8 byte sequences.
   Enc  : the one encoding the serializer must emit (canonical varints).
   Dec  : left-to-right decoder returning the value, the bytes consumed and the list of block reads,
          or the error kind of the FIRST violated rule. *)
EXTENDS Varint, TLC
IntW(k) == CASE k \in {"u16", "i16"} -> 16 [] k \in {"u32", "i32"} -> 32
             [] k \in {"u64", "i64", "usize", "isize"} -> 64 [] k \in {"u128", "i128"} -> 128 [] OTHER -> 0
Signed(k) == k \in {"i16", "i32", "i64", "i128", "isize"}
IsFix(k) == k \in {"fixle", "fixbe"}
Err(e) == [ok |-> FALSE, err |-> e]
\* tk: the block reads (try_take_n) performed, in order: [at |-> input offset, n |-> size, k |-> "f"|"c"|"s"|"b"]
Ok(v, p) == [ok |-> TRUE, v |-> v, pos |-> p, tk |-> <<>>]
OkT(v, p, tk) == [ok |-> TRUE, v |-> v, pos |-> p, tk |-> tk]
Rest(bs, p) == SubSeq(bs, p + 1, Len(bs))      \* p = number of bytes already consumed
RevSeq(s) == [i \in 1..Len(s) |-> s[Len(s) + 1 - i]]

\* ------------------------------------------------------------------ encoding
RECURSIVE Enc(_, _), EncAll(_, _), EncEach(_, _), EncPairs(_, _, _)
SmallVar(n) == LET RECURSIVE F(_)
                   F(x) == IF x < 128 THEN <<x>> ELSE <<(x % 128) + 128>> \o F(x \div 128)
               IN F(n)
EncInt(k, v) == LET W == IntW(k)  b == BitsOfBytes(v, W)
                IN Canon(IF Signed(k) THEN ZigZag(b, W) ELSE b, W)
FieldTs(fs) == [i \in 1..Len(fs) |-> fs[i].t]
EncData(d, v) == CASE d.k = "unit" -> <<>>
                   [] d.k = "newtype" -> Enc(d.t, v)
                   [] d.k = "tuple" -> EncAll(d.ts, v)
                   [] d.k = "struct" -> EncAll(FieldTs(d.fs), v)
Enc(s, v) ==
  CASE s.k \in {"bool", "u8", "i8"} -> <<v>>
    [] IntW(s.k) # 0 -> EncInt(s.k, v)
    [] s.k \in {"f32", "f64"} -> v
    [] s.k = "fixle" -> v
    [] s.k = "fixbe" -> RevSeq(v)
    [] s.k \in {"str", "bytes", "char"} -> SmallVar(Len(v)) \o v
    [] s.k = "opt" -> IF v.some = 0 THEN <<0>> ELSE <<1>> \o Enc(s.t, v.v)
    [] s.k \in {"unit", "unit_struct"} -> <<>>
    [] s.k = "newtype_struct" -> Enc(s.t, v)
    [] s.k = "seq" -> SmallVar(Len(v)) \o EncEach(s.t, v)
    [] s.k \in {"tuple", "tuple_struct"} -> EncAll(s.ts, v)
    [] s.k = "struct" -> EncAll(FieldTs(s.fs), v)
    [] s.k = "map" -> SmallVar(Len(v)) \o EncPairs(s.kt, s.vt, v)
    [] s.k = "enum" -> SmallVar(v.i) \o EncData(s.vs[v.i + 1].d, v.v)
EncEach(t, vs) == IF vs = <<>> THEN <<>> ELSE Enc(t, Head(vs)) \o EncEach(t, Tail(vs))
EncAll(ts, vs) == IF ts = <<>> THEN <<>> ELSE Enc(Head(ts), Head(vs)) \o EncAll(Tail(ts), Tail(vs))
EncPairs(kt, vt, ps) == IF ps = <<>> THEN <<>> ELSE Enc(kt, Head(ps)[1]) \o Enc(vt, Head(ps)[2]) \o EncPairs(kt, vt, Tail(ps))

\* ------------------------------------------------------------------ encoding of a recorded serde call tree
\* (self-describing: every node carries its kind), used for concrete Rust types whose shape nobody declared
RECURSIVE EncTree(_), EncTrees(_, _)
TreeIntK == {"u16", "i16", "u32", "i32", "u64", "i64", "u128", "i128"}
EncTrees(ts, i) == IF i > Len(ts) THEN <<>> ELSE EncTree(ts[i]) \o EncTrees(ts, i + 1)
EncTree(t) ==
  CASE t.c \in {"bool", "u8", "i8"} -> <<t.v>>
    [] t.c \in TreeIntK -> EncInt(t.c, t.v)
    [] t.c \in {"f32", "f64"} -> t.v
    [] t.c \in {"char", "str", "bytes"} -> SmallVar(Len(t.v)) \o t.v
    [] t.c = "none" -> <<0>>
    [] t.c = "some" -> <<1>> \o EncTree(t.v)
    [] t.c \in {"unit", "unit_struct"} -> <<>>
    [] t.c = "unit_variant" -> SmallVar(t.i)
    [] t.c = "newtype_struct" -> EncTree(t.v)
    [] t.c = "newtype_variant" -> SmallVar(t.i) \o EncTree(t.v)
    [] t.c = "seq" -> SmallVar(Len(t.vs)) \o EncTrees(t.vs, 1)
    [] t.c \in {"tuple", "tuple_struct"} -> EncTrees(t.vs, 1)
    [] t.c = "tuple_variant" -> SmallVar(t.i) \o EncTrees(t.vs, 1)
    [] t.c = "map" -> SmallVar(Len(t.ps)) \o EncTrees([i \in 1..(2 * Len(t.ps)) |-> t.ps[(i + 1) \div 2][2 - (i % 2)]], 1)
    [] t.c = "struct" -> EncTrees([i \in 1..Len(t.fs) |-> t.fs[i].v], 1)
    [] t.c = "struct_variant" -> SmallVar(t.i) \o EncTrees([i \in 1..Len(t.fs) |-> t.fs[i].v], 1)

\* ------------------------------------------------------------------ decoding (left to right, first violated rule)
\* a length prefix: [ok, n (int, only meaningful if small), big (BOOLEAN), pos]
ReadLen(bs, p) == LET r == ReadVarint(Rest(bs, p), 64) IN
   IF ~r.ok THEN r
   ELSE LET lb == BytesOfBits(r.bits, 64) IN
        [ok |-> TRUE, big |-> ~IsSmall(lb), n |-> IF IsSmall(lb) THEN ToInt(lb) ELSE 0, pos |-> p + r.used]
\* take a block of n bytes (kind k)
TakeBlock(bs, len, k) == IF len.big \/ len.n > Len(bs) - len.pos THEN Err("End")
                         ELSE OkT(SubSeq(bs, len.pos + 1, len.pos + len.n), len.pos + len.n,
                                  <<[at |-> len.pos, n |-> len.n, k |-> k]>>)
\* can a value of this shape occupy zero bytes?  (only used to bound iteration)
RECURSIVE MinW(_)
MinW(s) == CASE s.k \in {"unit", "unit_struct"} -> 0
             [] s.k = "newtype_struct" -> MinW(s.t)
             [] s.k \in {"tuple", "tuple_struct"} -> IF \E i \in 1..Len(s.ts) : MinW(s.ts[i]) > 0 THEN 1 ELSE 0
             [] s.k = "struct" -> IF \E i \in 1..Len(s.fs) : MinW(s.fs[i].t) > 0 THEN 1 ELSE 0
             [] OTHER -> 1
RECURSIVE Dec(_, _, _), DecAll(_, _, _, _, _), DecEach(_, _, _, _, _, _), DecPairs(_, _, _, _, _, _, _)
DecData(d, bs, q) == CASE d.k = "unit" -> Ok(0, q)
                       [] d.k = "newtype" -> Dec(d.t, bs, q)
                       [] d.k = "tuple" -> DecAll(d.ts, bs, q, <<>>, <<>>)
                       [] d.k = "struct" -> DecAll(FieldTs(d.fs), bs, q, <<>>, <<>>)
Dec(s, bs, p) ==
  LET n == Len(bs) IN
  CASE s.k \in {"u8", "i8"} -> IF p >= n THEN Err("End") ELSE Ok(bs[p+1], p+1)
    [] s.k = "bool" -> IF p >= n THEN Err("End") ELSE IF bs[p+1] > 1 THEN Err("BadBool") ELSE Ok(bs[p+1], p+1)
    [] IntW(s.k) # 0 -> LET W == IntW(s.k)  r == ReadVarint(Rest(bs, p), W) IN
          IF ~r.ok THEN r ELSE Ok(BytesOfBits(IF Signed(s.k) THEN UnZigZag(r.bits, W) ELSE r.bits, W), p + r.used)
    [] s.k = "f32" -> IF n - p < 4 THEN Err("End") ELSE OkT(SubSeq(bs, p+1, p+4), p+4, <<[at |-> p, n |-> 4, k |-> "f"]>>)
    [] s.k = "f64" -> IF n - p < 8 THEN Err("End") ELSE OkT(SubSeq(bs, p+1, p+8), p+8, <<[at |-> p, n |-> 8, k |-> "f"]>>)
    [] s.k = "fixle" -> LET w == s.w \div 8 IN IF n - p < w THEN Err("End") ELSE Ok(SubSeq(bs, p+1, p+w), p+w)
    [] s.k = "fixbe" -> LET w == s.w \div 8 IN IF n - p < w THEN Err("End") ELSE Ok(RevSeq(SubSeq(bs, p+1, p+w)), p+w)
    [] s.k = "bytes" -> LET l == ReadLen(bs, p) IN IF ~l.ok THEN l ELSE TakeBlock(bs, l, "b")
    [] s.k = "str" -> LET l == ReadLen(bs, p) IN IF ~l.ok THEN l ELSE
          LET b == TakeBlock(bs, l, "s") IN IF ~b.ok THEN b ELSE IF Utf8Valid(b.v) THEN b ELSE Err("BadUtf8")
    [] s.k = "char" -> LET l == ReadLen(bs, p) IN IF ~l.ok THEN l ELSE
          IF l.big \/ l.n > 4 THEN Err("BadChar") ELSE
          LET b == TakeBlock(bs, l, "c") IN IF ~b.ok THEN b ELSE IF OneScalar(b.v) THEN b ELSE Err("BadChar")
    [] s.k = "opt" -> IF p >= n THEN Err("End")
          ELSE IF bs[p+1] = 0 THEN Ok([some |-> 0], p+1)
          ELSE IF bs[p+1] = 1 THEN (LET r == Dec(s.t, bs, p+1) IN IF ~r.ok THEN r ELSE OkT([some |-> 1, v |-> r.v], r.pos, r.tk))
          ELSE Err("BadOption")
    [] s.k = "unit" \/ s.k = "unit_struct" -> Ok(0, p)
    [] s.k = "newtype_struct" -> Dec(s.t, bs, p)
    [] s.k = "seq" -> LET l == ReadLen(bs, p) IN IF ~l.ok THEN l ELSE
          LET avail == n - l.pos
              cnt == IF (l.big \/ l.n > avail) /\ MinW(s.t) > 0 THEN avail + 1 ELSE l.n   \* must fail within avail+1 elements
          IN DecEach(s.t, bs, l.pos, cnt, <<>>, <<>>)
    [] s.k \in {"tuple", "tuple_struct"} -> DecAll(s.ts, bs, p, <<>>, <<>>)
    [] s.k = "struct" -> DecAll(FieldTs(s.fs), bs, p, <<>>, <<>>)
    [] s.k = "map" -> LET l == ReadLen(bs, p) IN IF ~l.ok THEN l ELSE
          LET avail == n - l.pos
              cnt == IF (l.big \/ l.n > avail) /\ (MinW(s.kt) > 0 \/ MinW(s.vt) > 0) THEN avail + 1 ELSE l.n
          IN DecPairs(s.kt, s.vt, bs, l.pos, cnt, <<>>, <<>>)
    [] s.k = "enum" -> LET r == ReadVarint(Rest(bs, p), 32) IN IF ~r.ok THEN r ELSE
          LET ib == BytesOfBits(r.bits, 32) IN
          IF ~IsSmall(ib) \/ ToInt(ib) >= Len(s.vs) THEN Err("Custom") ELSE
          LET i == ToInt(ib)  pay == DecData(s.vs[i+1].d, bs, p + r.used)
          IN IF ~pay.ok THEN pay ELSE OkT([i |-> i, v |-> pay.v], pay.pos, pay.tk)
DecAll(ts, bs, p, acc, tk) == IF ts = <<>> THEN OkT(acc, p, tk)
   ELSE LET r == Dec(Head(ts), bs, p) IN IF ~r.ok THEN r ELSE DecAll(Tail(ts), bs, r.pos, Append(acc, r.v), tk \o r.tk)
DecEach(t, bs, p, cnt, acc, tk) == IF cnt = 0 THEN OkT(acc, p, tk)
   ELSE LET r == Dec(t, bs, p) IN IF ~r.ok THEN r ELSE DecEach(t, bs, r.pos, cnt - 1, Append(acc, r.v), tk \o r.tk)
DecPairs(kt, vt, bs, p, cnt, acc, tk) == IF cnt = 0 THEN OkT(acc, p, tk)
   ELSE LET a == Dec(kt, bs, p) IN IF ~a.ok THEN a ELSE
        LET b == Dec(vt, bs, a.pos) IN IF ~b.ok THEN b ELSE
        DecPairs(kt, vt, bs, b.pos, cnt - 1, Append(acc, <<a.v, b.v>>), tk \o a.tk \o b.tk)

\* ------------------------------------------------------------------ derived notions
\* borrowed leaves of a slice decode: offsets of the str/bytes blocks in the input
SliceLeaves(tk) == LET idx == {i \in 1..Len(tk) : tk[i].k \in {"s", "b"}}
                       F[i \in 0..Len(tk)] == IF i = 0 THEN <<>>
                                              ELSE IF tk[i].k \in {"s", "b"} THEN Append(F[i-1], <<tk[i].at, tk[i].n, IF tk[i].k = "s" THEN 0 ELSE 1>>)
                                              ELSE F[i-1]
                   IN F[Len(tk)]
\* scratch needed by a reader-based decode: every block read is copied into the scratch buffer
RECURSIVE SumN(_, _)
SumN(tk, i) == IF i = 0 THEN 0 ELSE tk[i].n + SumN(tk, i - 1)
ScratchNeed(tk) == SumN(tk, Len(tk))
\* What the statements fix about a reader-based decode and what they leave to the implementation: borrowed strings and
\* byte slices must lie in disjoint parts of the caller's scratch buffer; whether blocks that are not borrowed (floats,
\* chars) pass through the scratch at all is not prescribed. So: the scratch surely suffices when every block read fits
\* (ScratchNeed), it cannot suffice when the borrowed blocks alone do not fit (BorrowNeed), and in between either outcome is
\* acceptable as long as a success places the leaves correctly.
BorrowBlocks(tk) == SelectSeq(tk, LAMBDA t : t.k \in {"s", "b"})
RECURSIVE SumB(_, _)
SumB(B, i) == IF i = 0 THEN 0 ELSE B[i].n + SumB(B, i - 1)
BorrowNeed(tk) == LET B == BorrowBlocks(tk) IN SumB(B, Len(B))
\* obs: observed leaves <<offset, length, kind>> in decoding order; all inside [lo, hi), pairwise disjoint, with the lengths
\* and kinds of the borrowed blocks in order (empty leaves carry no position)
ReaderLeavesOK(obs, tk, lo, hi) ==
  LET B == BorrowBlocks(tk) IN
  /\ Len(obs) = Len(B)
  /\ \A j \in 1..Len(B) : /\ obs[j][2] = B[j].n /\ obs[j][3] = (IF B[j].k = "s" THEN 0 ELSE 1)
                           /\ (B[j].n > 0 => (obs[j][1] >= lo /\ obs[j][1] + obs[j][2] <= hi))
  /\ \A j \in 1..Len(B) : \A k \in (j + 1)..Len(B) :
        (B[j].n = 0 \/ B[k].n = 0 \/ obs[j][1] + obs[j][2] <= obs[k][1] \/ obs[k][1] + obs[k][2] <= obs[j][1])
\* leaves of a reader decode as the current implementation places them: offsets in the scratch buffer (cumulative block sizes)
ReaderLeaves(tk) == LET F[i \in 0..Len(tk)] == IF i = 0 THEN <<>>
                                               ELSE IF tk[i].k \in {"s", "b"} THEN Append(F[i-1], <<SumN(tk, i-1), tk[i].n, IF tk[i].k = "s" THEN 0 ELSE 1>>)
                                               ELSE F[i-1]
                    IN F[Len(tk)]
=====================================================================
