---------------------------- MODULE Crc ----------------------------
EXTENDS Integers, Sequences, TLC
\* Rocksoft-model CRC on bit vectors; alg = [width, poly, init, refin, refout, xorout] with poly/init/xorout as LE bytes
CPow2(n) == 2^n
CBit(bs, i) == IF i < 8 * Len(bs) THEN (bs[(i \div 8) + 1] \div CPow2(i % 8)) % 2 ELSE 0
CBits(bs, W) == [i \in 0..(W-1) |-> CBit(bs, i)]
CXor(a, b) == (a + b) % 2
StepBit(reg, W, poly, inbit) ==
  LET top == CXor(reg[W-1], inbit)
  IN [i \in 0..(W-1) |-> CXor(IF i = 0 THEN 0 ELSE reg[i-1], IF top = 1 THEN poly[i] ELSE 0)]
RECURSIVE StepByte(_, _, _, _, _, _)
StepByte(reg, W, poly, byte, refin, k) ==
  IF k = 8 THEN reg
  ELSE LET idx == IF refin THEN k ELSE 7 - k
       IN StepByte(StepBit(reg, W, poly, (byte \div CPow2(idx)) % 2), W, poly, byte, refin, k + 1)
\* the digest register is the state of the CRC layer: Update = fold of StepByte, per byte (pop) or per block (take)
DigestInit(alg) == CBits(alg.init, alg.width)
RECURSIVE DigestUpdate(_, _, _)
DigestUpdate(alg, reg, msg) == IF msg = <<>> THEN reg
   ELSE DigestUpdate(alg, StepByte(reg, alg.width, CBits(alg.poly, alg.width), Head(msg), alg.refin, 0), Tail(msg))
DigestFinal(alg, reg) ==
  LET W == alg.width
      r2 == IF alg.refout THEN [i \in 0..(W-1) |-> reg[W-1-i]] ELSE reg
      xo == CBits(alg.xorout, W)
  IN [i \in 0..(W-1) |-> CXor(r2[i], xo[i])]
\* checksum as S little-endian bytes (S = size_of the crate's integer type: 1,2,4,8,16)
CrcLE(alg, msg, S) ==
  LET W == alg.width  f == DigestFinal(alg, DigestUpdate(alg, DigestInit(alg), msg))
      b(p) == IF p < W THEN f[p] ELSE 0
  IN [j \in 1..S |-> b(8*(j-1)) + 2*b(8*(j-1)+1) + 4*b(8*(j-1)+2) + 8*b(8*(j-1)+3)
                     + 16*b(8*(j-1)+4) + 32*b(8*(j-1)+5) + 64*b(8*(j-1)+6) + 128*b(8*(j-1)+7)]
Check9 == <<49,50,51,52,53,54,55,56,57>>      \* "123456789": CrcLE(alg, Check9, S) must equal the catalogue `check`
Iscsi == [width |-> 32, poly |-> <<65,111,220,30>>, init |-> <<255,255,255,255>>, refin |-> TRUE, refout |-> TRUE, xorout |-> <<255,255,255,255>>]
Xmodem == [width |-> 16, poly |-> <<33,16>>, init |-> <<0,0>>, refin |-> FALSE, refout |-> FALSE, xorout |-> <<0,0>>]
Smbus == [width |-> 8, poly |-> <<7>>, init |-> <<0>>, refin |-> FALSE, refout |-> FALSE, xorout |-> <<0>>]
\* ASSUME CrcLE(Iscsi, Check9, 4) = <<131, 146, 6, 227>>            \* 0xe3069283
\* ASSUME CrcLE(Iscsi, <<4,1,0,32,48>>, 4) = <<142, 200, 26, 55>>   \* postcard README: 8E C8 1A 37
\* ASSUME CrcLE(Xmodem, Check9, 2) = <<195, 49>>                    \* 0x31c3
\* ASSUME CrcLE(Smbus, Check9, 1) = <<244>>                         \* 0xf4
CatalogueOK ==
  /\ CrcLE(Iscsi, Check9, 4) = <<131, 146, 6, 227>>            \* 0xe3069283
  /\ CrcLE(Iscsi, <<4,1,0,32,48>>, 4) = <<142, 200, 26, 55>>   \* postcard README: 8E C8 1A 37
  /\ CrcLE(Xmodem, Check9, 2) = <<195, 49>>                    \* 0x31c3
  /\ CrcLE(Smbus, Check9, 1) = <<244>>                         \* 0xf4
=====================================================================
