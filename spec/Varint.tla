---------------------------- MODULE Varint ----------------------------
EXTENDS Base
VarintMax(W) == (W + 6) \div 7
Group(b, W, j) ==
  LET bit(k) == IF 7*j + k < W THEN b[7*j+k] ELSE 0
  IN bit(0) + 2*bit(1) + 4*bit(2) + 8*bit(3) + 16*bit(4) + 32*bit(5) + 64*bit(6)
NGroups(b, W) ==
  LET S == {j \in 0..(VarintMax(W)-1) : Group(b, W, j) # 0}
  IN IF S = {} THEN 1 ELSE (CHOOSE m \in S : \A x \in S : x <= m) + 1
Canon(b, W) ==   \* canonical varint of bit vector b of width W
  LET n == NGroups(b, W)
  IN [j \in 1..n |-> Group(b, W, j-1) + (IF j < n THEN 128 ELSE 0)]
ZigZag(b, W) == [i \in 0..(W-1) |-> IF i = 0 THEN b[W-1] ELSE BXor(b[i-1], b[W-1])]
UnZigZag(z, W) == [i \in 0..(W-1) |-> IF i = W-1 THEN z[0] ELSE BXor(z[i+1], z[0])]
\* ---- reading: spec-shaped ----
\* k = index of the first byte with a clear MSB among the first VarintMax(W) bytes (0 if none)
TermIdx(s, W) == LET m == IF Len(s) < VarintMax(W) THEN Len(s) ELSE VarintMax(W)
                     S == {i \in 1..m : s[i] < 128}
                 IN IF S = {} THEN 0 ELSE CHOOSE i \in S : \A x \in S : i <= x
\* bit p of the value denoted by the first k bytes
VBit(s, p) == (s[(p \div 7) + 1] \div Pow2(p % 7)) % 2
\* result: [ok |-> TRUE, bits, used] or [ok |-> FALSE, err]
ReadVarint(s, W) ==
  LET k == TermIdx(s, W) IN
  IF k = 0 THEN (IF Len(s) < VarintMax(W) THEN [ok |-> FALSE, err |-> "End"] ELSE [ok |-> FALSE, err |-> "BadVarint"])
  ELSE IF \E p \in W..(7*k - 1) : VBit(s, p) = 1 THEN [ok |-> FALSE, err |-> "BadVarint"]
  ELSE [ok |-> TRUE, used |-> k, bits |-> [p \in 0..(W-1) |-> IF p < 7*k THEN VBit(s, p) ELSE 0]]

\* ---------------------------------------------------------------------------------------------
\* Implementation-shaped machines (one action per loop iteration of varint.rs / deserializer.rs)
\* ---------------------------------------------------------------------------------------------
\* writer: state [i, val (bit vector, width W), out, done]
LowByte(b, W) == LET bit(k) == IF k < W THEN b[k] ELSE 0
                 IN bit(0) + 2*bit(1) + 4*bit(2) + 8*bit(3) + 16*bit(4) + 32*bit(5) + 64*bit(6) + 128*bit(7)
Below128(b, W) == \A k \in 7..(W-1) : b[k] = 0
Shr7(b, W) == [k \in 0..(W-1) |-> IF k + 7 < W THEN b[k+7] ELSE 0]
WInit(b) == [i |-> 0, val |-> b, out |-> <<>>, done |-> FALSE]
WStep(st, W) ==
  IF st.i >= VarintMax(W) THEN [st EXCEPT !.done = TRUE]          \* fell out of the loop: whole array
  ELSE LET lb == LowByte(st.val, W) IN
       IF Below128(st.val, W) THEN [st EXCEPT !.out = Append(@, lb), !.done = TRUE]
       ELSE [i |-> st.i + 1, val |-> Shr7(st.val, W), out |-> Append(st.out, IF lb >= 128 THEN lb ELSE lb + 128), done |-> FALSE]
\* reader: state [i, acc (bit vector), status \in {"run","ok","End","BadVarint"}, used]
MaxLast(W) == Pow2(W % 7) - 1
RInit(W) == [i |-> 0, acc |-> [k \in 0..(W-1) |-> 0], status |-> "run", used |-> 0]
\* one loop iteration; `byte` = -1 models pop() failing
RStep(st, W, byte) ==
  IF st.i >= VarintMax(W) THEN [st EXCEPT !.status = "BadVarint"]
  ELSE IF byte = -1 THEN [st EXCEPT !.status = "End"]
  ELSE LET acc2 == [k \in 0..(W-1) |-> IF k >= 7*st.i /\ k < 7*st.i + 7 /\ (byte \div Pow2(k - 7*st.i)) % 2 = 1 THEN 1 ELSE st.acc[k]]
       IN IF byte < 128 THEN
            (IF st.i = VarintMax(W) - 1 /\ byte > MaxLast(W) THEN [st EXCEPT !.status = "BadVarint", !.used = st.i + 1]
             ELSE [i |-> st.i + 1, acc |-> acc2, status |-> "ok", used |-> st.i + 1])
          ELSE [i |-> st.i + 1, acc |-> acc2, status |-> "run", used |-> st.i + 1]
=======================================================================
