---------------------------- MODULE SchemaModel ----------------------------
EXTENDS Wire, Fnv
\* schema tree: [k |-> kind, ...]; kinds in the published variant order
Kinds == <<"Bool","I8","U8","I16","I32","I64","I128","U16","U32","U64","U128","Usize","Isize","F32","F64",
           "Char","String","ByteArray","Option","Unit","Seq","Tuple","Map","Struct","Enum","Schema">>
KindIdx(k) == (CHOOSE i \in 1..Len(Kinds) : Kinds[i] = k) - 1
DataKinds == <<"Unit","Newtype","Tuple","Struct">>
DataIdx(k) == (CHOOSE i \in 1..4 : DataKinds[i] = k) - 1
EncStr(bs) == SmallVar(Len(bs)) \o bs
RECURSIVE Concat(_)
Concat(ss) == IF ss = <<>> THEN <<>> ELSE Head(ss) \o Concat(Tail(ss))

\* ---- the schema-of-schema wire encoding (what Serialize of DataModelType / OwnedDataModelType must give) ----
RECURSIVE EncSchema(_), EncSData(_)
EncSchema(t) ==
  <<KindIdx(t.k)>> \o
  CASE t.k \in {"Option", "Seq"} -> EncSchema(t.t)
    [] t.k = "Tuple" -> SmallVar(Len(t.ts)) \o Concat([i \in 1..Len(t.ts) |-> EncSchema(t.ts[i])])
    [] t.k = "Map" -> EncSchema(t.key) \o EncSchema(t.val)
    [] t.k = "Struct" -> EncStr(t.name) \o EncSData(t.data)
    [] t.k = "Enum" -> EncStr(t.name) \o SmallVar(Len(t.variants)) \o
          Concat([i \in 1..Len(t.variants) |-> EncStr(t.variants[i].name) \o EncSData(t.variants[i].data)])
    [] OTHER -> <<>>
EncSData(d) ==
  <<DataIdx(d.k)>> \o
  CASE d.k = "Unit" -> <<>>
    [] d.k = "Newtype" -> EncSchema(d.t)
    [] d.k = "Tuple" -> SmallVar(Len(d.ts)) \o Concat([i \in 1..Len(d.ts) |-> EncSchema(d.ts[i])])
    [] d.k = "Struct" -> SmallVar(Len(d.fs)) \o Concat([i \in 1..Len(d.fs) |-> EncStr(d.fs[i].name) \o EncSchema(d.fs[i].ty)])

\* ---- key stream (documented tags) ----
Tag(k) == CASE k = "Bool" -> 17 [] k = "I8" -> 197 [] k = "U8" -> 61 [] k = "I16" -> 29 [] k = "I32" -> 13
  [] k = "I64" -> 11 [] k = "I128" -> 2 [] k = "U16" -> 131 [] k = "U32" -> 211 [] k = "U64" -> 19 [] k = "U128" -> 139
  [] k = "Usize" -> 107 [] k = "Isize" -> 173 [] k = "F32" -> 239 [] k = "F64" -> 113 [] k = "Char" -> 193
  [] k = "String" -> 37 [] k = "ByteArray" -> 101 [] k = "Option" -> 109 [] k = "Unit" -> 71 [] k = "Seq" -> 3
  [] k = "Tuple" -> 167 [] k = "Map" -> 79 [] k = "Enum" -> 233 [] k = "Schema" -> 229
StructTag(dk) == CASE dk = "Unit" -> 191 [] dk = "Newtype" -> 157 [] dk = "Tuple" -> 5 [] dk = "Struct" -> 127
VariantTag(dk) == CASE dk = "Unit" -> 181 [] dk = "Newtype" -> 223 [] dk = "Tuple" -> 199 [] dk = "Struct" -> 103
RECURSIVE KS(_), KSData(_, _)
KSData(d, tag) ==
  <<tag>> \o
  CASE d.k = "Unit" -> <<>>
    [] d.k = "Newtype" -> KS(d.t)
    [] d.k = "Tuple" -> Concat([i \in 1..Len(d.ts) |-> KS(d.ts[i])])
    [] d.k = "Struct" -> Concat([i \in 1..Len(d.fs) |-> d.fs[i].name \o KS(d.fs[i].ty)])
KS(t) ==
  CASE t.k \in {"Option", "Seq"} -> <<Tag(t.k)>> \o KS(t.t)
    [] t.k = "Tuple" -> <<Tag("Tuple")>> \o Concat([i \in 1..Len(t.ts) |-> KS(t.ts[i])])
    [] t.k = "Map" -> <<Tag("Map")>> \o KS(t.key) \o KS(t.val)
    [] t.k = "Struct" -> KSData(t.data, StructTag(t.data.k))                       \* type name NOT hashed
    [] t.k = "Enum" -> <<Tag("Enum")>> \o Concat([i \in 1..Len(t.variants) |->
                          t.variants[i].name \o KSData(t.variants[i].data, VariantTag(t.variants[i].data.k))])
    [] OTHER -> <<Tag(t.k)>>
Key(path, t) == Fnv1a64(path \o KS(t))

\* ---- subtrees (what all_used_types must return) ----
RECURSIVE Subtrees(_), SubData(_)
UnionSeq(f) == UNION {f[i] : i \in DOMAIN f}
SubData(d) == CASE d.k = "Unit" -> {}
                [] d.k = "Newtype" -> Subtrees(d.t)
                [] d.k = "Tuple" -> UnionSeq([i \in 1..Len(d.ts) |-> Subtrees(d.ts[i])])
                [] d.k = "Struct" -> UnionSeq([i \in 1..Len(d.fs) |-> Subtrees(d.fs[i].ty)])
Subtrees(t) == {t} \cup
  CASE t.k \in {"Option", "Seq"} -> Subtrees(t.t)
    [] t.k = "Tuple" -> UnionSeq([i \in 1..Len(t.ts) |-> Subtrees(t.ts[i])])
    [] t.k = "Map" -> Subtrees(t.key) \cup Subtrees(t.val)
    [] t.k = "Struct" -> SubData(t.data)
    [] t.k = "Enum" -> UnionSeq([i \in 1..Len(t.variants) |-> SubData(t.variants[i].data)])
    [] OTHER -> {}
\* contiguous subsequence
Occurs(n, h) == n = <<>> \/ \E i \in 1..(Len(h) - Len(n) + 1) : SubSeq(h, i, i + Len(n) - 1) = n

\* ---------------------------------------------------------------------------------------------
\* inverse of EncSchema: parse a schema-of-schema encoding (what Deserialize of OwnedDataModelType must accept)
\* ---------------------------------------------------------------------------------------------
MErr == [ok |-> FALSE]
MOk(t, p) == [ok |-> TRUE, t |-> t, pos |-> p]
\* small varint (index / length): [ok, n, pos]
RECURSIVE RdSmall(_, _, _, _)
RdSmall(bs, p, shift, acc) ==
  IF p >= Len(bs) \/ shift > 21 THEN [ok |-> FALSE]
  ELSE LET b == bs[p + 1] IN
       IF b < 128 THEN [ok |-> TRUE, n |-> acc + b * Pow2(shift), pos |-> p + 1]
       ELSE RdSmall(bs, p + 1, shift + 7, acc + (b - 128) * Pow2(shift))
RdStr(bs, p) == LET l == RdSmall(bs, p, 0, 0) IN
  IF ~l.ok \/ l.n > Len(bs) - l.pos THEN [ok |-> FALSE]
  ELSE LET v == SubSeq(bs, l.pos + 1, l.pos + l.n) IN IF Utf8Valid(v) THEN [ok |-> TRUE, v |-> v, pos |-> l.pos + l.n] ELSE [ok |-> FALSE]
RECURSIVE DecMeta(_, _), DecMetaData(_, _), DecMetaList(_, _, _, _), DecMetaFields(_, _, _, _), DecMetaVariants(_, _, _, _)
DecMetaList(bs, p, cnt, acc) == IF cnt = 0 THEN [ok |-> TRUE, ts |-> acc, pos |-> p]
  ELSE LET r == DecMeta(bs, p) IN IF ~r.ok THEN [ok |-> FALSE] ELSE DecMetaList(bs, r.pos, cnt - 1, Append(acc, r.t))
DecMetaFields(bs, p, cnt, acc) == IF cnt = 0 THEN [ok |-> TRUE, fs |-> acc, pos |-> p]
  ELSE LET n == RdStr(bs, p) IN IF ~n.ok THEN [ok |-> FALSE] ELSE
       LET r == DecMeta(bs, n.pos) IN IF ~r.ok THEN [ok |-> FALSE] ELSE DecMetaFields(bs, r.pos, cnt - 1, Append(acc, [name |-> n.v, ty |-> r.t]))
DecMetaVariants(bs, p, cnt, acc) == IF cnt = 0 THEN [ok |-> TRUE, vs |-> acc, pos |-> p]
  ELSE LET n == RdStr(bs, p) IN IF ~n.ok THEN [ok |-> FALSE] ELSE
       LET d == DecMetaData(bs, n.pos) IN IF ~d.ok THEN [ok |-> FALSE] ELSE DecMetaVariants(bs, d.pos, cnt - 1, Append(acc, [name |-> n.v, data |-> d.t]))
DecMetaData(bs, p) ==
  LET i == RdSmall(bs, p, 0, 0) IN
  IF ~i.ok \/ i.n > 3 THEN MErr
  ELSE CASE i.n = 0 -> MOk([k |-> "Unit"], i.pos)
         [] i.n = 1 -> LET r == DecMeta(bs, i.pos) IN IF ~r.ok THEN MErr ELSE MOk([k |-> "Newtype", t |-> r.t], r.pos)
         [] i.n = 2 -> LET l == RdSmall(bs, i.pos, 0, 0) IN IF ~l.ok \/ l.n > Len(bs) THEN MErr ELSE
                       LET r == DecMetaList(bs, l.pos, l.n, <<>>) IN IF ~r.ok THEN MErr ELSE MOk([k |-> "Tuple", ts |-> r.ts], r.pos)
         [] i.n = 3 -> LET l == RdSmall(bs, i.pos, 0, 0) IN IF ~l.ok \/ l.n > Len(bs) THEN MErr ELSE
                       LET r == DecMetaFields(bs, l.pos, l.n, <<>>) IN IF ~r.ok THEN MErr ELSE MOk([k |-> "Struct", fs |-> r.fs], r.pos)
DecMeta(bs, p) ==
  LET i == RdSmall(bs, p, 0, 0) IN
  IF ~i.ok \/ i.n >= Len(Kinds) THEN MErr
  ELSE LET k == Kinds[i.n + 1] IN
    CASE k \in {"Option", "Seq"} -> LET r == DecMeta(bs, i.pos) IN IF ~r.ok THEN MErr ELSE MOk([k |-> k, t |-> r.t], r.pos)
      [] k = "Tuple" -> LET l == RdSmall(bs, i.pos, 0, 0) IN IF ~l.ok \/ l.n > Len(bs) THEN MErr ELSE
                        LET r == DecMetaList(bs, l.pos, l.n, <<>>) IN IF ~r.ok THEN MErr ELSE MOk([k |-> "Tuple", ts |-> r.ts], r.pos)
      [] k = "Map" -> LET a == DecMeta(bs, i.pos) IN IF ~a.ok THEN MErr ELSE
                      LET c == DecMeta(bs, a.pos) IN IF ~c.ok THEN MErr ELSE MOk([k |-> "Map", key |-> a.t, val |-> c.t], c.pos)
      [] k = "Struct" -> LET n == RdStr(bs, i.pos) IN IF ~n.ok THEN MErr ELSE
                         LET d == DecMetaData(bs, n.pos) IN IF ~d.ok THEN MErr ELSE MOk([k |-> "Struct", name |-> n.v, data |-> d.t], d.pos)
      [] k = "Enum" -> LET n == RdStr(bs, i.pos) IN IF ~n.ok THEN MErr ELSE
                       LET l == RdSmall(bs, n.pos, 0, 0) IN IF ~l.ok \/ l.n > Len(bs) THEN MErr ELSE
                       LET r == DecMetaVariants(bs, l.pos, l.n, <<>>) IN IF ~r.ok THEN MErr ELSE MOk([k |-> "Enum", name |-> n.v, variants |-> r.vs], r.pos)
      [] OTHER -> MOk([k |-> k], i.pos)

\* ---------------------------------------------------------------------------------------------
\* a schema as a wire shape (what a schema-driven reader parses), and conformance of a recorded serde call tree
\* ---------------------------------------------------------------------------------------------
PrimShape(k) == CASE k = "Bool" -> "bool" [] k = "I8" -> "i8" [] k = "U8" -> "u8" [] k = "I16" -> "i16" [] k = "I32" -> "i32" [] k = "I64" -> "i64"
  [] k = "I128" -> "i128" [] k = "U16" -> "u16" [] k = "U32" -> "u32" [] k = "U64" -> "u64" [] k = "U128" -> "u128" [] k = "Usize" -> "usize"
  [] k = "Isize" -> "isize" [] k = "F32" -> "f32" [] k = "F64" -> "f64" [] k = "Char" -> "char" [] k = "String" -> "str" [] k = "ByteArray" -> "bytes"
  [] k = "Unit" -> "unit" [] k = "Schema" -> "schema"
RECURSIVE ShapeOf(_), ShapeOfData(_)
ShapeOfData(d) == CASE d.k = "Unit" -> [k |-> "unit"]
                    [] d.k = "Newtype" -> [k |-> "newtype", t |-> ShapeOf(d.t)]
                    [] d.k = "Tuple" -> [k |-> "tuple", ts |-> [i \in 1..Len(d.ts) |-> ShapeOf(d.ts[i])]]
                    [] d.k = "Struct" -> [k |-> "struct", fs |-> [i \in 1..Len(d.fs) |-> [n |-> d.fs[i].name, t |-> ShapeOf(d.fs[i].ty)]]]
ShapeOf(t) ==
  CASE t.k = "Option" -> [k |-> "opt", t |-> ShapeOf(t.t)]
    [] t.k = "Seq" -> [k |-> "seq", t |-> ShapeOf(t.t)]
    [] t.k = "Tuple" -> [k |-> "tuple", ts |-> [i \in 1..Len(t.ts) |-> ShapeOf(t.ts[i])]]
    [] t.k = "Map" -> [k |-> "map", kt |-> ShapeOf(t.key), vt |-> ShapeOf(t.val)]
    [] t.k = "Struct" -> (LET d == ShapeOfData(t.data) IN
          CASE d.k = "unit" -> [k |-> "unit_struct"] [] d.k = "newtype" -> [k |-> "newtype_struct", t |-> d.t]
            [] d.k = "tuple" -> [k |-> "tuple_struct", ts |-> d.ts] [] d.k = "struct" -> [k |-> "struct", fs |-> d.fs])
    [] t.k = "Enum" -> [k |-> "enum", vs |-> [i \in 1..Len(t.variants) |-> [n |-> t.variants[i].name, d |-> ShapeOfData(t.variants[i].data)]]]
    [] OTHER -> [k |-> PrimShape(t.k)]
HasSchemaKind(sh) == LET RECURSIVE H(_)
                         H(x) == \/ x.k = "schema"
                                 \/ (x.k \in {"opt", "seq", "newtype_struct", "newtype"} /\ H(x.t))
                                 \/ (x.k \in {"tuple", "tuple_struct"} /\ \E i \in 1..Len(x.ts) : H(x.ts[i]))
                                 \/ (x.k = "struct" /\ \E i \in 1..Len(x.fs) : H(x.fs[i].t))
                                 \/ (x.k = "map" /\ (H(x.kt) \/ H(x.vt)))
                                 \/ (x.k = "enum" /\ \E i \in 1..Len(x.vs) : H(x.vs[i].d))
                     IN H(sh)

\* the schema of DataModelType / OwnedDataModelType themselves; the kind Schema marks the recursion
S_ == [k |-> "Schema"]
NF(n, ty) == [name |-> n, ty |-> ty]
MetaData == [k |-> "Enum", name |-> <<>>, variants |-> <<
    [name |-> <<85,110,105,116>>, data |-> [k |-> "Unit"]],
    [name |-> <<78,101,119,116,121,112,101>>, data |-> [k |-> "Newtype", t |-> S_]],
    [name |-> <<84,117,112,108,101>>, data |-> [k |-> "Newtype", t |-> [k |-> "Seq", t |-> S_]]],
    [name |-> <<83,116,114,117,99,116>>, data |-> [k |-> "Newtype", t |-> [k |-> "Seq", t |->
         [k |-> "Struct", name |-> <<>>, data |-> [k |-> "Struct", fs |-> <<NF(<<110,97,109,101>>, [k |-> "String"]), NF(<<116,121>>, S_)>>]]]]] >>]
MetaVariant == [k |-> "Struct", name |-> <<>>, data |-> [k |-> "Struct", fs |-> <<NF(<<110,97,109,101>>, [k |-> "String"]), NF(<<100,97,116,97>>, MetaData)>>]]
KindName(k) == CASE k = "Bool" -> <<66,111,111,108>> [] k = "I8" -> <<73,56>> [] k = "U8" -> <<85,56>> [] k = "I16" -> <<73,49,54>> [] k = "I32" -> <<73,51,50>>
  [] k = "I64" -> <<73,54,52>> [] k = "I128" -> <<73,49,50,56>> [] k = "U16" -> <<85,49,54>> [] k = "U32" -> <<85,51,50>> [] k = "U64" -> <<85,54,52>>
  [] k = "U128" -> <<85,49,50,56>> [] k = "Usize" -> <<85,115,105,122,101>> [] k = "Isize" -> <<73,115,105,122,101>> [] k = "F32" -> <<70,51,50>>
  [] k = "F64" -> <<70,54,52>> [] k = "Char" -> <<67,104,97,114>> [] k = "String" -> <<83,116,114,105,110,103>> [] k = "ByteArray" -> <<66,121,116,101,65,114,114,97,121>>
  [] k = "Option" -> <<79,112,116,105,111,110>> [] k = "Unit" -> <<85,110,105,116>> [] k = "Seq" -> <<83,101,113>> [] k = "Tuple" -> <<84,117,112,108,101>>
  [] k = "Map" -> <<77,97,112>> [] k = "Struct" -> <<83,116,114,117,99,116>> [] k = "Enum" -> <<69,110,117,109>> [] k = "Schema" -> <<83,99,104,101,109,97>>
MetaVarData(k) == CASE k \in {"Option", "Seq"} -> [k |-> "Newtype", t |-> S_]
  [] k = "Tuple" -> [k |-> "Newtype", t |-> [k |-> "Seq", t |-> S_]]
  [] k = "Map" -> [k |-> "Struct", fs |-> <<NF(<<107,101,121>>, S_), NF(<<118,97,108>>, S_)>>]
  [] k = "Struct" -> [k |-> "Struct", fs |-> <<NF(<<110,97,109,101>>, [k |-> "String"]), NF(<<100,97,116,97>>, MetaData)>>]
  [] k = "Enum" -> [k |-> "Struct", fs |-> <<NF(<<110,97,109,101>>, [k |-> "String"]), NF(<<118,97,114,105,97,110,116,115>>, [k |-> "Seq", t |-> MetaVariant])>>]
  [] OTHER -> [k |-> "Unit"]
MetaSchema == [k |-> "Enum", name |-> <<>>, variants |-> [i \in 1..Len(Kinds) |-> [name |-> KindName(Kinds[i]), data |-> MetaVarData(Kinds[i])]]]

IntKind(k) == CASE k = "I8" -> "i8" [] k = "U8" -> "u8" [] k = "I16" -> "i16" [] k = "I32" -> "i32" [] k = "I64" -> "i64" [] k = "I128" -> "i128"
  [] k = "U16" -> "u16" [] k = "U32" -> "u32" [] k = "U64" -> "u64" [] k = "U128" -> "u128" [] k = "Usize" -> "u64" [] k = "Isize" -> "i64" [] OTHER -> ""
Has_(r, f) == f \in DOMAIN r
RECURSIVE Conforms(_, _), ConformsData(_, _, _)
AllConf(ts, vs) == Len(ts) = Len(vs) /\ \A i \in 1..Len(ts) : Conforms(ts[i], vs[i])
FieldsConf(fs, xs) == Len(fs) = Len(xs) /\ \A i \in 1..Len(fs) : fs[i].name = xs[i].n /\ Conforms(fs[i].ty, xs[i].v)
\* data of a struct (form = "struct") or of an enum variant (form = "variant") against call-tree node t
ConformsData(d, t, form) ==
  LET sfx == IF form = "struct" THEN "_struct" ELSE "_variant" IN
  CASE d.k = "Unit" -> t.c = "unit" \o sfx
    [] d.k = "Newtype" -> t.c = "newtype" \o sfx /\ Conforms(d.t, t.v)
    [] d.k = "Tuple" -> t.c = "tuple" \o sfx /\ t.len = Len(d.ts) /\ AllConf(d.ts, t.vs)
    [] d.k = "Struct" -> t.c = (IF form = "struct" THEN "struct" ELSE "struct_variant") /\ t.len = Len(d.fs) /\ FieldsConf(d.fs, t.fs)
Conforms(s, t) ==
  CASE s.k = "Bool" -> t.c = "bool"
    [] IntKind(s.k) # "" -> t.c = IntKind(s.k)
    [] s.k = "F32" -> t.c = "f32" [] s.k = "F64" -> t.c = "f64" [] s.k = "Char" -> t.c = "char"
    [] s.k = "String" -> t.c = "str" [] s.k = "ByteArray" -> t.c = "bytes" [] s.k = "Unit" -> t.c = "unit"
    [] s.k = "Option" -> t.c = "none" \/ (t.c = "some" /\ Conforms(s.t, t.v))
    [] s.k = "Seq" -> t.c = "seq" /\ t.len = Len(t.vs) /\ \A i \in 1..Len(t.vs) : Conforms(s.t, t.vs[i])
    [] s.k = "Tuple" -> t.c = "tuple" /\ t.len = Len(s.ts) /\ AllConf(s.ts, t.vs)
    [] s.k = "Map" -> t.c = "map" /\ t.len = Len(t.ps) /\ \A i \in 1..Len(t.ps) : Conforms(s.key, t.ps[i][1]) /\ Conforms(s.val, t.ps[i][2])
    [] s.k = "Struct" -> ConformsData(s.data, t, "struct")
    [] s.k = "Enum" -> /\ t.c \in {"unit_variant", "newtype_variant", "tuple_variant", "struct_variant"}
                       /\ t.i < Len(s.variants) /\ s.variants[t.i + 1].name = t.vn
                       /\ ConformsData(s.variants[t.i + 1].data, t, "variant")
    [] s.k = "Schema" -> Conforms(MetaSchema, t)
\* every struct/enum/field/variant name appearing directly in a top-level struct or enum
DirectNames(t) == CASE t.k = "Struct" -> {t.name} \cup (IF t.data.k = "Struct" THEN {t.data.fs[i].name : i \in 1..Len(t.data.fs)} ELSE {})
                    [] t.k = "Enum" -> {t.name} \cup {t.variants[i].name : i \in 1..Len(t.variants)}
                             \cup UNION {IF t.variants[i].data.k = "Struct" THEN {t.variants[i].data.fs[j].name : j \in 1..Len(t.variants[i].data.fs)} ELSE {} : i \in 1..Len(t.variants)}
                    [] OTHER -> {}
=============================================================================
