---------------------------- MODULE SchemaModel ----------------------------
EXTENDS Base, Fnv, TLC
\* schema tree: [k |-> kind, ...]; kinds in the published variant order
Kinds == <<"Bool","I8","U8","I16","I32","I64","I128","U16","U32","U64","U128","Usize","Isize","F32","F64",
           "Char","String","ByteArray","Option","Unit","Seq","Tuple","Map","Struct","Enum","Schema">>
KindIdx(k) == (CHOOSE i \in 1..Len(Kinds) : Kinds[i] = k) - 1
DataKinds == <<"Unit","Newtype","Tuple","Struct">>
DataIdx(k) == (CHOOSE i \in 1..4 : DataKinds[i] = k) - 1
SmallVar(n) == LET RECURSIVE F(_)
                   F(x) == IF x < 128 THEN <<x>> ELSE <<(x % 128) + 128>> \o F(x \div 128)
               IN F(n)
EncStr(bs) == SmallVar(Len(bs)) \o bs
RECURSIVE Concat(_)
Concat(ss) == IF ss = <<>> THEN <<>> ELSE Head(ss) \o Concat(Tail(ss))

\* ---- the schema-of-schema wire encoding (what Serialize of DataModelType / OwnedDataModelType must give) ----
RECURSIVE EncSchema(_), EncData(_)
EncSchema(t) ==
  <<KindIdx(t.k)>> \o
  CASE t.k \in {"Option", "Seq"} -> EncSchema(t.t)
    [] t.k = "Tuple" -> SmallVar(Len(t.ts)) \o Concat([i \in 1..Len(t.ts) |-> EncSchema(t.ts[i])])
    [] t.k = "Map" -> EncSchema(t.key) \o EncSchema(t.val)
    [] t.k = "Struct" -> EncStr(t.name) \o EncData(t.data)
    [] t.k = "Enum" -> EncStr(t.name) \o SmallVar(Len(t.variants)) \o
          Concat([i \in 1..Len(t.variants) |-> EncStr(t.variants[i].name) \o EncData(t.variants[i].data)])
    [] OTHER -> <<>>
EncData(d) ==
  <<DataIdx(d.k)>> \o
  CASE d.k = "Unit" -> <<>>
    [] d.k = "Newtype" -> EncSchema(d.t)
    [] d.k = "Tuple" -> SmallVar(Len(d.ts)) \o Concat([i \in 1..Len(d.ts) |-> EncSchema(d.ts[i])])
    [] d.k = "Struct" -> SmallVar(Len(d.fs)) \o Concat([i \in 1..Len(d.fs) |-> EncStr(d.fs[i].name) \o EncSchema(d.fs[i].ty)])

\* ---- key stream (documented tags) ----
Tag(k) == CASE k = "Bool" -> 17 [] k = "I8" -> 197 [] k = "U8" -> 61 [] k = "I16" -> 29 [] k = "I32" -> 13
  [] k = "I64" -> 11 [] k = "I128" -> 2 [] k = "U16" -> 131 [] k = "U32" -> 211 [] k = "U64" -> 19 [] k = "U128" -> 139
  [] k = "Usize" -> 107 [] k = "Isize" -> 173 [] k = "F32" -> 239 [] k = "F64" -> 113 [] k = "Char" -> 193
  [] k = "String" -> 37 [] k = "ByteArray" -> 101 [] k = "Option" -> 109 [] k = "Unit" -> 71 [] k = "Seq" -> 3
  [] k = "Tuple" -> 167 [] k = "Map" -> 79 [] k = "Enum" -> 233 [] k = "Schema" -> 229
StructTag(dk) == CASE dk = "Unit" -> 191 [] dk = "Newtype" -> 157 [] dk = "Tuple" -> 5 [] dk = "Struct" -> 127
VariantTag(dk) == CASE dk = "Unit" -> 181 [] dk = "Newtype" -> 223 [] dk = "Tuple" -> 199 [] dk = "Struct" -> 103
RECURSIVE KS(_), KSData(_, _)
KSData(d, tag) ==
  <<tag>> \o
  CASE d.k = "Unit" -> <<>>
    [] d.k = "Newtype" -> KS(d.t)
    [] d.k = "Tuple" -> Concat([i \in 1..Len(d.ts) |-> KS(d.ts[i])])
    [] d.k = "Struct" -> Concat([i \in 1..Len(d.fs) |-> d.fs[i].name \o KS(d.fs[i].ty)])
KS(t) ==
  CASE t.k \in {"Option", "Seq"} -> <<Tag(t.k)>> \o KS(t.t)
    [] t.k = "Tuple" -> <<Tag("Tuple")>> \o Concat([i \in 1..Len(t.ts) |-> KS(t.ts[i])])
    [] t.k = "Map" -> <<Tag("Map")>> \o KS(t.key) \o KS(t.val)
    [] t.k = "Struct" -> KSData(t.data, StructTag(t.data.k))                       \* type name NOT hashed
    [] t.k = "Enum" -> <<Tag("Enum")>> \o Concat([i \in 1..Len(t.variants) |->
                          t.variants[i].name \o KSData(t.variants[i].data, VariantTag(t.variants[i].data.k))])
    [] OTHER -> <<Tag(t.k)>>
Key(path, t) == Fnv1a64(path \o KS(t))

\* ---- subtrees (what all_used_types must return) ----
RECURSIVE Subtrees(_), SubData(_)
UnionSeq(f) == UNION {f[i] : i \in DOMAIN f}
SubData(d) == CASE d.k = "Unit" -> {}
                [] d.k = "Newtype" -> Subtrees(d.t)
                [] d.k = "Tuple" -> UnionSeq([i \in 1..Len(d.ts) |-> Subtrees(d.ts[i])])
                [] d.k = "Struct" -> UnionSeq([i \in 1..Len(d.fs) |-> Subtrees(d.fs[i].ty)])
Subtrees(t) == {t} \cup
  CASE t.k \in {"Option", "Seq"} -> Subtrees(t.t)
    [] t.k = "Tuple" -> UnionSeq([i \in 1..Len(t.ts) |-> Subtrees(t.ts[i])])
    [] t.k = "Map" -> Subtrees(t.key) \cup Subtrees(t.val)
    [] t.k = "Struct" -> SubData(t.data)
    [] t.k = "Enum" -> UnionSeq([i \in 1..Len(t.variants) |-> SubData(t.variants[i].data)])
    [] OTHER -> {}
\* contiguous subsequence
Occurs(n, h) == n = <<>> \/ \E i \in 1..(Len(h) - Len(n) + 1) : SubSeq(h, i, i + Len(n) - 1) = n
=============================================================================
