---------------------------- MODULE Fnv ----------------------------
EXTENDS Naturals, Sequences, Bitwise
\* u64 as 8 LE bytes
FnvBasis == <<37, 35, 34, 132, 228, 156, 242, 203>>   \* 0xcbf29ce484222325
RECURSIVE MulSmall(_, _, _, _)
MulSmall(x, m, i, carry) == IF i > 8 THEN <<>> ELSE LET p == x[i] * m + carry IN <<p % 256>> \o MulSmall(x, m, i+1, p \div 256)
RECURSIVE AddB(_, _, _, _)
AddB(a, b, i, carry) == IF i > 8 THEN <<>> ELSE LET s == a[i] + b[i] + carry IN <<s % 256>> \o AddB(a, b, i+1, s \div 256)
\* PRIME = 0x100000001b3 = 2^40 + 435
MulPrime(x) == AddB(MulSmall(x, 435, 1, 0), <<0,0,0,0,0, x[1], x[2], x[3]>>, 1, 0)
FnvStep(st, b) == MulPrime([st EXCEPT ![1] = st[1] ^^ b])
RECURSIVE FnvFold(_, _, _)
FnvFold(st, bs, i) == IF i > Len(bs) THEN st ELSE FnvFold(FnvStep(st, bs[i]), bs, i + 1)
Fnv1a64(bs) == FnvFold(FnvBasis, bs, 1)
=====================================================================
