---------------------------- MODULE CobsFn ----------------------------
EXTENDS Naturals, Sequences
\* cobs::decode_in_place_report on buffer s (functional rendering of decode_raw, MAXRUN = 254)
FirstZero(s) == IF \E i \in 1..Len(s) : s[i] = 0 THEN CHOOSE i \in 1..Len(s) : s[i] = 0 /\ \A j \in 1..(i-1) : s[j] # 0 ELSE 0
RECURSIVE RawLoop(_, _, _, _)
RawLoop(s, srcEnd, si, out) ==
  IF si >= srcEnd THEN [ok |-> TRUE, out |-> out, srcUsed |-> si]
  ELSE LET code == s[si+1] IN
       IF si + code > srcEnd /\ code # 1 THEN [ok |-> FALSE, out |-> out, srcUsed |-> si]
       ELSE LET si2 == si + code
                z == IF code # 255 /\ si2 < srcEnd THEN <<0>> ELSE <<>>
            IN RawLoop(s, srcEnd, si2, out \o SubSeq(s, si+2, si+code) \o z)
DecodeReport(s) == LET z == FirstZero(s) IN RawLoop(s, IF z = 0 THEN Len(s) ELSE z - 1, 0, <<>>)
=======================================================================
