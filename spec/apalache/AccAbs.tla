---------------------------- MODULE AccAbs ----------------------------
(* Length-level abstraction of CobsAccumulator::feed_ref for an ARBITRARY capacity N >= 1 and chunks of
   ARBITRARY length (Apalache, symbolic): only the fill index and the length of the window still to be fed
   matter for (a) the index staying within the buffer, (b) every slice index the code computes being in
   range (N - idx <= length of the chunk on the overflow branch: no panic), (c) the documented re-feed loop
   making progress. TLC checks the byte-level model (spec/Accumulator.tla) for N <= 7; this module discharges
   the same three facts as an inductive invariant without a bound on N or on the chunk length. *)
EXTENDS Integers

CONSTANT
    \* @type: Int;
    N

VARIABLES
    \* @type: Int;
    idx,        \* fill index of the accumulator
    \* @type: Int;
    win,        \* bytes of the current chunk not yet consumed (0: the driver fetches a new chunk)
    \* @type: Int;
    pIdx,       \* values before the last Feed step (history, for the progress measure)
    \* @type: Int;
    pWin,
    \* @type: Bool;
    fed,        \* the last step was a Feed step
    \* @type: Bool;
    sliceOK     \* every slice index computed by the last Feed step was within the chunk

ConstInit == N \in Int /\ N >= 1

\* z = 0: no zero byte in the window; otherwise the 1-based position of the first zero
Feed(z) ==
    /\ win > 0 /\ z >= 0 /\ z <= win
    /\ pIdx' = idx /\ pWin' = win /\ fed' = TRUE
    /\ IF z > 0
       THEN \* split_at(z): take = z bytes incl. the zero; fits or not, the index is reset and z bytes are consumed
            /\ idx' = 0 /\ win' = win - z
            /\ sliceOK' = (z <= win) /\ (idx + z <= N => idx + z <= N)
       ELSE IF idx + win > N
            THEN \* overflow without a zero: the remainder starts at new_start = N - idx
                 /\ idx' = 0 /\ win' = win - (N - idx)
                 /\ sliceOK' = (N - idx >= 0 /\ N - idx <= win)
            ELSE \* buffered: extend_unchecked copies into buf[idx .. idx + win]
                 /\ idx' = idx + win /\ win' = 0
                 /\ sliceOK' = (idx + win <= N)

NewChunk(len) ==
    /\ win = 0 /\ len > 0
    /\ win' = len /\ UNCHANGED idx
    /\ pIdx' = idx /\ pWin' = win /\ fed' = FALSE /\ sliceOK' = TRUE

Init == idx = 0 /\ win = 0 /\ pIdx = 0 /\ pWin = 0 /\ fed = FALSE /\ sliceOK = TRUE
Next == (\E z \in Int : Feed(z)) \/ (\E len \in Int : NewChunk(len))

\* the inductive invariant: any state satisfying it steps to a state satisfying it
IndInv ==
    /\ N >= 1
    /\ idx >= 0 /\ idx <= N                                          \* IdxBound
    /\ win >= 0
    /\ sliceOK                                                       \* no slice index out of range (no panic)
    /\ fed => (win < pWin \/ (win = pWin /\ idx < pIdx))             \* Progress: the measure (win, idx) decreased
IndInit == /\ idx \in Int /\ win \in Int /\ pIdx \in Int /\ pWin \in Int /\ fed \in BOOLEAN /\ sliceOK \in BOOLEAN
           /\ IndInv
=======================================================================
