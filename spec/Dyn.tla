---------------------------- MODULE Dyn ----------------------------
(* The dynamic (schema-driven) JSON codec, postcard-dyn, in relation to the static codec and serde_json.
   JsonOf(shape, value) is the serde_json::Value that serde_json::to_value produces for a data-model value
   (structural rendering: numbers as exact u64 / i64 limbs or float bit patterns, strings as bytes, objects as
   key-sorted pair lists - serde_json's Map is ordered by key). Unambiguous is the scope of C17. *)
EXTENDS SchemaModel, SequencesExt
Zeros(n) == [i \in 1..n |-> 0]
Ext(v, fill) == [i \in 1..8 |-> IF i <= Len(v) THEN v[i] ELSE fill]
Neg(v) == v[Len(v)] >= 128
JNull == [t |-> "null"]
\* lexicographic order on byte strings (= str order in Rust)
RECURSIVE BLess(_, _)
BLess(a, b) == IF a = <<>> THEN b # <<>> ELSE IF b = <<>> THEN FALSE
               ELSE IF a[1] # b[1] THEN a[1] < b[1] ELSE BLess(Tail(a), Tail(b))
\* insertion sort of <<key, json>> pairs by key
RECURSIVE InsertP(_, _), SortP(_)
InsertP(p, s) == IF s = <<>> THEN <<p>> ELSE IF BLess(p[1], s[1][1]) THEN <<p>> \o s ELSE <<s[1]>> \o InsertP(p, Tail(s))
SortP(s) == IF s = <<>> THEN <<>> ELSE InsertP(s[1], SortP(Tail(s)))

IntFits(s, v) == CASE s.k = "u128" -> \A i \in 9..16 : v[i] = 0
                   [] s.k = "i128" -> IF Neg(v) THEN (\A i \in 9..16 : v[i] = 255) /\ v[8] >= 128 ELSE (\A i \in 9..16 : v[i] = 0)   \* i64 or u64 range: what serde_json can hold
                   [] OTHER -> TRUE
JInt(s, v) == IF Signed(s.k) /\ Neg(v) THEN [t |-> "i", v |-> Ext(SubSeq(v, 1, IF Len(v) > 8 THEN 8 ELSE Len(v)), 255)]
              ELSE [t |-> "u", v |-> Ext(SubSeq(v, 1, IF Len(v) > 8 THEN 8 ELSE Len(v)), 0)]
RECURSIVE JsonOf(_, _), JsonAll(_, _), JsonData(_, _), JsonFields(_, _)
JsonAll(ts, vs) == [i \in 1..Len(ts) |-> JsonOf(ts[i], vs[i])]
JsonFields(fs, vs) == SortP([i \in 1..Len(fs) |-> <<fs[i].n, JsonOf(fs[i].t, vs[i])>>])
JsonData(d, v) == CASE d.k = "newtype" -> JsonOf(d.t, v)
                    [] d.k = "tuple" -> [t |-> "a", v |-> JsonAll(d.ts, v)]
                    [] d.k = "struct" -> [t |-> "o", v |-> JsonFields(d.fs, v)]
JsonOf(s, v) ==
  CASE s.k = "bool" -> [t |-> "bool", v |-> v]
    [] s.k = "u8" -> [t |-> "u", v |-> Ext(<<v>>, 0)]
    [] s.k = "i8" -> IF v >= 128 THEN [t |-> "i", v |-> Ext(<<v>>, 255)] ELSE [t |-> "u", v |-> Ext(<<v>>, 0)]
    [] IntW(s.k) # 0 -> JInt(s, v)
    [] s.k = "f32" -> [t |-> "f32", v |-> v]
    [] s.k = "f64" -> [t |-> "f64", v |-> v]
    [] s.k \in {"char", "str"} -> [t |-> "s", v |-> v]
    [] s.k = "bytes" -> [t |-> "a", v |-> [i \in 1..Len(v) |-> [t |-> "u", v |-> Ext(<<v[i]>>, 0)]]]
    [] s.k = "opt" -> IF v.some = 0 THEN JNull ELSE JsonOf(s.t, v.v)
    [] s.k \in {"unit", "unit_struct"} -> JNull
    [] s.k = "newtype_struct" -> JsonOf(s.t, v)
    [] s.k = "seq" -> [t |-> "a", v |-> [i \in 1..Len(v) |-> JsonOf(s.t, v[i])]]
    [] s.k \in {"tuple", "tuple_struct"} -> [t |-> "a", v |-> JsonAll(s.ts, v)]
    [] s.k = "struct" -> [t |-> "o", v |-> JsonFields(s.fs, v)]
    [] s.k = "map" -> [t |-> "o", v |-> [i \in 1..Len(v) |-> <<v[i][1], JsonOf(s.vt, v[i][2])>>]]
    [] s.k = "enum" -> (LET vr == s.vs[v.i + 1] IN
                        IF vr.d.k = "unit" THEN [t |-> "s", v |-> vr.n] ELSE [t |-> "o", v |-> << <<vr.n, JsonData(vr.d, v.v)>> >>])
RECURSIVE JsonMatch(_, _)
JsonMatch(exp, obs) ==
  CASE exp.t = "f32" -> obs.t = "f" /\ obs.n = exp.v /\ obs.exact = 1
    [] exp.t = "f64" -> obs.t = "f" /\ obs.v = exp.v
    [] exp.t = "a" -> obs.t = "a" /\ Len(obs.v) = Len(exp.v) /\ \A i \in 1..Len(exp.v) : JsonMatch(exp.v[i], obs.v[i])
    [] exp.t = "o" -> obs.t = "o" /\ Len(obs.v) = Len(exp.v) /\ \A i \in 1..Len(exp.v) : obs.v[i][1] = exp.v[i][1] /\ JsonMatch(exp.v[i][2], obs.v[i][2])
    [] OTHER -> exp = obs
\* equality of two observed JSON values (harness form), field by field so that differently typed contents are never compared
RECURSIVE JEq(_, _)
JEq(a, b) == /\ a.t = b.t
             /\ CASE a.t = "null" -> TRUE
                  [] a.t \in {"bool", "u", "i", "s", "f"} -> a.v = b.v
                  [] a.t = "a" -> Len(a.v) = Len(b.v) /\ \A i \in 1..Len(a.v) : JEq(a.v[i], b.v[i])
                  [] a.t = "o" -> Len(a.v) = Len(b.v) /\ \A i \in 1..Len(a.v) : a.v[i][1] = b.v[i][1] /\ JEq(a.v[i][2], b.v[i][2])
                  [] OTHER -> FALSE
\* finite float: exponent field not all ones
Finite32(v) == ~(v[4] % 128 = 127 /\ v[3] >= 128)
Finite64(v) == ~(v[8] % 128 = 127 /\ v[7] >= 240)
RECURSIVE Unamb(_, _), UnambAll(_, _), UnambData(_, _)
UnambAll(ts, vs) == \A i \in 1..Len(ts) : Unamb(ts[i], vs[i])
UnambData(d, v) == CASE d.k = "unit" -> TRUE
                     [] d.k = "newtype" -> Unamb(d.t, v)
                     [] d.k = "tuple" -> Len(d.ts) # 1 /\ UnambAll(d.ts, v)        \* one unnamed field is a newtype by serde's convention
                     [] d.k = "struct" -> UnambAll(FieldTs(d.fs), v)
Unamb(s, v) ==
  CASE IntW(s.k) # 0 -> IntFits(s, v)
    [] s.k = "f32" -> Finite32(v)
    [] s.k = "f64" -> Finite64(v)
    [] s.k \in {"fixle", "fixbe"} -> FALSE
    [] s.k = "opt" -> v.some = 0 \/ (Unamb(s.t, v.v) /\ JsonOf(s.t, v.v) # JNull)      \* JSON null would be ambiguous
    [] s.k = "newtype_struct" -> Unamb(s.t, v)
    [] s.k = "seq" -> \A i \in 1..Len(v) : Unamb(s.t, v[i])
    [] s.k = "tuple" -> UnambAll(s.ts, v)
    [] s.k = "tuple_struct" -> Len(s.ts) # 1 /\ UnambAll(s.ts, v)
    [] s.k = "struct" -> UnambAll(FieldTs(s.fs), v)
    [] s.k = "map" -> /\ s.kt.k = "str"
                      /\ \A i \in 1..Len(v) : Unamb(s.vt, v[i][2])
                      /\ \A i \in 1..(Len(v) - 1) : BLess(v[i][1], v[i+1][1])            \* unique, ascending: the only order a JSON object retains
    [] s.k = "enum" -> UnambData(s.vs[v.i + 1].d, v.v)
    [] OTHER -> TRUE
=====================================================================
