---------------------------- MODULE Cobs ----------------------------
(* Consistent Overhead Byte Stuffing (Cheshire & Baker) as used by postcard, parametric in MR, the
   maximum number of data bytes a code byte can announce (254 in reality; 2..4 in scaled models):
     code c <= MR   : c-1 data bytes follow, then an implied zero (unless the frame ends there)
     code c = MR+1  : MR data bytes follow, no implied zero
   Functional definitions (by groups) and implementation-shaped machines:
     - the streaming encoder cobs::EncoderState as driven by postcard's ser_flavors::Cobs over a store
     - the in-place decoder cobs::decode_in_place_report (decode_raw), one action per loop iteration *)
EXTENDS Integers, Sequences, FiniteSets

\* ---------------- functional definition ----------------
RECURSIVE RunLen(_, _)     \* number of leading non-zero bytes of m[i..]
RunLen(m, i) == IF i > Len(m) \/ m[i] = 0 THEN 0 ELSE 1 + RunLen(m, i + 1)
RECURSIVE CobsFrom(_, _, _)
\* encode m[i..]; a group is emitted even when nothing is left ("the final code"), which is what the
\* streaming encoder does after a full MR block or a trailing zero
CobsFrom(m, i, MR) ==
  LET r == RunLen(m, i) IN
  IF r >= MR THEN <<MR + 1>> \o SubSeq(m, i, i + MR - 1) \o CobsFrom(m, i + MR, MR)
  ELSE IF i + r > Len(m) THEN <<r + 1>> \o SubSeq(m, i, i + r - 1)               \* last group, no zero follows
  ELSE <<r + 1>> \o SubSeq(m, i, i + r - 1) \o CobsFrom(m, i + r + 1, MR)          \* group ended by a zero of m
CobsEnc(m, MR) == CobsFrom(m, 1, MR)
Framed(m, MR) == CobsEnc(m, MR) \o <<0>>
\* standard decoder of one frame body f (no zero inside): [ok, out]; fails iff a code points past the end
RECURSIVE CobsDecFrom(_, _, _, _)
CobsDecFrom(f, i, out, MR) ==
  IF i > Len(f) THEN [ok |-> TRUE, out |-> out]
  ELSE LET c == f[i] IN
       IF i + c - 1 > Len(f) THEN [ok |-> FALSE, out |-> out]
       ELSE LET data == SubSeq(f, i + 1, i + c - 1)  nxt == i + c
                z == IF c # MR + 1 /\ nxt <= Len(f) THEN <<0>> ELSE <<>>
            IN CobsDecFrom(f, nxt, out \o data \o z, MR)
CobsDec(f, MR) == CobsDecFrom(f, 1, <<>>, MR)

FirstZero(s) == IF \E i \in 1..Len(s) : s[i] = 0 THEN CHOOSE i \in 1..Len(s) : s[i] = 0 /\ \A j \in 1..(i-1) : s[j] # 0 ELSE 0
\* the first frame of a buffer: everything before the first zero (or the whole buffer)
FrameEnd(s) == LET z == FirstZero(s) IN IF z = 0 THEN Len(s) ELSE z - 1
FirstFrame(s) == SubSeq(s, 1, FrameEnd(s))
\* what decode_in_place_report must answer, functionally: [ok, out, dstUsed, srcUsed, buf]
DecodeReport(s, MR) ==
  LET f == FirstFrame(s)  d == CobsDec(f, MR) IN
  IF ~d.ok THEN [ok |-> FALSE, out |-> <<>>, dstUsed |-> 0, srcUsed |-> 0, buf |-> s]
  ELSE [ok |-> TRUE, out |-> d.out, dstUsed |-> Len(d.out), srcUsed |-> Len(f),
        buf |-> d.out \o SubSeq(s, Len(d.out) + 1, Len(s))]

\* ---------------- storage + streaming encoder as pure step functions ----------------
\* store: [buf, cap, full]; cap = -1 means unbounded
StPush(st, b) == IF st.cap >= 0 /\ Len(st.buf) >= st.cap THEN [st EXCEPT !.full = TRUE] ELSE [st EXCEPT !.buf = Append(@, b)]
StPatch(st, idx, v) == [st EXCEPT !.buf[idx + 1] = v]          \* idx < Len(buf) is an invariant obligation
StNew(cap) == [buf |-> <<>>, cap |-> cap, full |-> FALSE]
\* cobs::EncoderState {code_idx, num_bt_sent, offset_idx}
EncInit == [code |-> 0, sent |-> 1, off |-> 1]
\* mirrors ser_flavors::Cobs::try_push; stops at the first storage failure
CobsPush(e, st, b, MR) ==
  IF b = 0 THEN
       LET s1 == StPatch(st, e.code, e.sent)  s2 == StPush(s1, 0)
       IN [e |-> [code |-> e.code + e.off, sent |-> 1, off |-> 1], st |-> s2]
  ELSE IF e.sent + 1 = MR + 1 THEN
       LET s1 == StPatch(st, e.code, MR + 1)  s2 == StPush(s1, b)
           s3 == IF s2.full THEN s2 ELSE StPush(s2, 0)
       IN [e |-> [code |-> e.code + e.off + 1, sent |-> 1, off |-> 1], st |-> s3]
  ELSE [e |-> [code |-> e.code, sent |-> e.sent + 1, off |-> e.off + 1], st |-> StPush(st, b)]
CobsFinalize(e, st) == StPush(StPatch(st, e.code, e.sent), 0)

\* the storage calls ser_flavors::Cobs makes for one byte (IndexMut patch of a code byte, pushes), as data:
\* <<"patch", idx>> or <<"push", byte>>; mirrors CobsPush
CobsOps(e, b, MR) ==
  IF b = 0 THEN [e |-> [code |-> e.code + e.off, sent |-> 1, off |-> 1], ops |-> << <<"patch", e.code>>, <<"push", 0>> >>]
  ELSE IF e.sent + 1 = MR + 1 THEN [e |-> [code |-> e.code + e.off + 1, sent |-> 1, off |-> 1], ops |-> << <<"patch", e.code>>, <<"push", b>>, <<"push", 0>> >>]
  ELSE [e |-> [code |-> e.code, sent |-> e.sent + 1, off |-> e.off + 1], ops |-> << <<"push", b>> >>]
RECURSIVE CobsOpsAll(_, _, _, _)
CobsOpsAll(e, x, i, MR) == IF i > Len(x) THEN << <<"patch", e.code>>, <<"push", 0>> >>            \* finalize
                           ELSE LET r == CobsOps(e, x[i], MR) IN r.ops \o CobsOpsAll(r.e, x, i + 1, MR)
\* try_new reserves the first code byte; then every byte; then finalize
CobsStoreOps(x, MR) == << <<"push", 0>> >> \o CobsOpsAll(EncInit, x, 1, MR)

\* ---------------- in-place decoder machine (decode_raw with src = dst) ----------------
\* state: [buf, srcEnd, si, di, left (bytes still to copy for the current code), code, status, lastR, lastW]
\* lastR / lastW: index (0-based) of the last buffer read / write, -1 if none yet
DrInit(s) == [buf |-> s, srcEnd |-> FrameEnd(s), si |-> 0, di |-> 0, left |-> 0, code |-> 0, status |-> "code",
              lastR |-> -1, lastW |-> -1]
\* one loop iteration of either the outer while (status "code") or the inner for (status "copy")
DrStep(st, MR) ==
  IF st.status = "code" THEN
     IF st.si >= st.srcEnd THEN [st EXCEPT !.status = "done"]
     ELSE LET c == st.buf[st.si + 1] IN
          IF st.si + c > st.srcEnd /\ c # 1 THEN [st EXCEPT !.status = "err", !.lastR = st.si]
          ELSE [st EXCEPT !.code = c, !.left = c - 1, !.si = st.si + 1, !.status = "copy", !.lastR = st.si]
  ELSE IF st.status = "copy" THEN
     IF st.left > 0 THEN [st EXCEPT !.buf[st.di + 1] = st.buf[st.si + 1], !.si = st.si + 1, !.di = st.di + 1, !.left = st.left - 1,
                                    !.lastR = st.si, !.lastW = st.di]
     ELSE IF st.code # MR + 1 /\ st.si < st.srcEnd THEN [st EXCEPT !.buf[st.di + 1] = 0, !.di = st.di + 1, !.status = "code", !.lastW = st.di]
     ELSE [st EXCEPT !.status = "code"]
  ELSE st

\* ---------------- postcard's COBS entry points, functionally ----------------
\* Decode(payload) is supplied by the caller (Wire!Dec of the target shape): [ok, v, pos, ...] or [ok |-> FALSE, err]
\* from_bytes_cobs: [kind |-> "ok", v] | [kind |-> "err", err]
FromCobs(s, MR, Decode(_)) ==
  LET r == DecodeReport(s, MR) IN
  IF ~r.ok THEN [kind |-> "err", err |-> "BadEncoding"]
  ELSE LET d == Decode(r.out) IN IF d.ok THEN [kind |-> "ok", v |-> d.v, tk |-> d.tk] ELSE [kind |-> "err", err |-> d.err]
\* take_from_bytes_cobs: additionally the remainder, which starts right after the frame's sentinel (if present)
TakeFromCobs(s, MR, Decode(_)) ==
  LET r == DecodeReport(s, MR) IN
  IF ~r.ok THEN [kind |-> "err", err |-> "BadEncoding"]
  ELSE LET used == IF r.srcUsed < Len(s) /\ s[r.srcUsed + 1] = 0 THEN r.srcUsed + 1 ELSE r.srcUsed
           d == Decode(r.out)
       IN IF d.ok THEN [kind |-> "ok", v |-> d.v, tk |-> d.tk, used |-> used, rem |-> SubSeq(s, used + 1, Len(s))]
          ELSE [kind |-> "err", err |-> d.err]
=====================================================================
