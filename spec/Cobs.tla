---------------------------- MODULE Cobs ----------------------------
EXTENDS Naturals, Sequences, FiniteSets, TLC
CONSTANT MAXRUN          \* 254 in reality: a code byte c <= MAXRUN means "c-1 data bytes then an implied zero",
                         \* c = MAXRUN+1 means "MAXRUN data bytes, no implied zero"
\* ---------------- functional definition (by groups, Cheshire & Baker) ----------------
RECURSIVE RunLen(_, _)     \* number of leading non-zero bytes of SubSeq(m, i, ..)
RunLen(m, i) == IF i > Len(m) \/ m[i] = 0 THEN 0 ELSE 1 + RunLen(m, i + 1)
RECURSIVE CobsFrom(_, _)
\* encode m[i..]; a group is emitted even when nothing is left ("the final code"), which is what
\* postcard's streaming encoder does after a full MAXRUN block or a trailing zero
CobsFrom(m, i) ==
  LET r == RunLen(m, i) IN
  IF r >= MAXRUN THEN <<MAXRUN + 1>> \o SubSeq(m, i, i + MAXRUN - 1) \o CobsFrom(m, i + MAXRUN)
  ELSE IF i + r > Len(m) THEN <<r + 1>> \o SubSeq(m, i, i + r - 1)             \* last group, no zero follows
  ELSE <<r + 1>> \o SubSeq(m, i, i + r - 1) \o CobsFrom(m, i + r + 1)          \* group ended by a zero of m
CobsEnc(m) == CobsFrom(m, 1)
Framed(m) == CobsEnc(m) \o <<0>>
\* standard decoder of one frame body (no zeros inside): [ok, out]
RECURSIVE CobsDecFrom(_, _, _)
CobsDecFrom(f, i, out) ==
  IF i > Len(f) THEN [ok |-> TRUE, out |-> out]
  ELSE LET c == f[i] IN
       IF i + c - 1 > Len(f) THEN [ok |-> FALSE, out |-> out]
       ELSE LET data == SubSeq(f, i + 1, i + c - 1)  nxt == i + c
                z == IF c # MAXRUN + 1 /\ nxt <= Len(f) THEN <<0>> ELSE <<>>
            IN CobsDecFrom(f, nxt, out \o data \o z)
CobsDec(f) == CobsDecFrom(f, 1, <<>>)

\* ---------------- storage + streaming encoder as pure step functions ----------------
INF == 1000000
StPush(st, b) == IF Len(st.buf) >= st.cap THEN [st EXCEPT !.full = TRUE] ELSE [st EXCEPT !.buf = Append(@, b)]
StPatch(st, idx, v) == [st EXCEPT !.buf[idx + 1] = v]          \* idx < Len(buf) is an invariant obligation
\* cobs::EncoderState {code_idx, num_bt_sent, offset_idx}
EncInit == [code |-> 0, sent |-> 1, off |-> 1]
\* returns [e, st]; mirrors postcard's Cobs::try_push; stops at the first storage failure
CobsPush(e, st, b) ==
  IF b = 0 THEN
       LET s1 == StPatch(st, e.code, e.sent)  s2 == StPush(s1, 0)
       IN [e |-> [code |-> e.code + e.off, sent |-> 1, off |-> 1], st |-> s2]
  ELSE IF e.sent + 1 = MAXRUN + 1 THEN
       LET s1 == StPatch(st, e.code, MAXRUN + 1)  s2 == StPush(s1, b)
           s3 == IF s2.full THEN s2 ELSE StPush(s2, 0)
       IN [e |-> [code |-> e.code + e.off + 1, sent |-> 1, off |-> 1], st |-> s3]
  ELSE [e |-> [code |-> e.code, sent |-> e.sent + 1, off |-> e.off + 1], st |-> StPush(st, b)]
CobsFinalize(e, st) == StPush(StPatch(st, e.code, e.sent), 0)

\* ---------------- model: feed a message byte by byte into Cobs<storage(cap)> ----------------
CONSTANTS Alphabet, MaxLen, MaxCap
VARIABLES msg, pos, e, st, phase     \* phase: "new" | "run" | "ok" | "err"
vars == <<msg, pos, e, st, phase>>
Msgs == UNION {[1..k -> Alphabet] : k \in 0..MaxLen}
Init == /\ msg \in Msgs /\ pos = 0 /\ e = EncInit /\ phase = "new"
        /\ \E c \in 0..MaxCap : st = [buf |-> <<>>, cap |-> c, full |-> FALSE]
New == /\ phase = "new"                                          \* Cobs::try_new reserves the first code byte
       /\ LET s == StPush(st, 0) IN st' = s /\ phase' = IF s.full THEN "err" ELSE "run"
       /\ UNCHANGED <<msg, pos, e>>
Push == /\ phase = "run" /\ pos < Len(msg)
        /\ LET r == CobsPush(e, st, msg[pos + 1]) IN
             /\ e' = r.e /\ st' = r.st /\ pos' = pos + 1 /\ phase' = IF r.st.full THEN "err" ELSE "run"
        /\ UNCHANGED msg
Fin == /\ phase = "run" /\ pos = Len(msg)
       /\ LET s == CobsFinalize(e, st) IN st' = s /\ phase' = IF s.full THEN "err" ELSE "ok"
       /\ UNCHANGED <<msg, pos, e>>
Next == New \/ Push \/ Fin
Spec == Init /\ [][Next]_vars

\* ---------------- properties ----------------
InBounds == Len(st.buf) <= st.cap
PatchBelowCursor == phase = "run" => e.code < Len(st.buf) /\ e.code + e.off = Len(st.buf)
Threshold == /\ phase = "ok"  => st.buf = Framed(msg)
             /\ phase = "err" => st.cap < Len(Framed(msg))
             /\ (phase \in {"ok", "err"}) => (phase = "ok" <=> st.cap >= Len(Framed(msg)))
NoInteriorZero == phase = "ok" => \A i \in 1..(Len(st.buf) - 1) : st.buf[i] # 0
DecodesBack == phase = "ok" => LET d == CobsDec(SubSeq(st.buf, 1, Len(st.buf) - 1)) IN d.ok /\ d.out = msg
NonZero(m) == \A i \in 1..Len(m) : m[i] # 0
LenFormula == phase = "ok" => /\ Len(st.buf) <= Len(msg) + (Len(msg) \div MAXRUN) + 2
                              /\ NonZero(msg) => Len(st.buf) = Len(msg) + (Len(msg) \div MAXRUN) + 2
=====================================================================
