//! Schema trees owned by the harness: generation, leaking into `&'static DataModelType`, independent walkers
//! over the borrowed and the owned representation, single-node mutants.
use crate::Args;
use postcard_schema::key::Key;
use postcard_schema::schema::owned::*;

use rand::{rngs::StdRng, Rng, SeedableRng};
use serde_json::{json, Value as J};
use std::io::Write;
use vcommon::obs::catch;

pub use vcommon::stree::*;

/// everything the harness can observe about one tree
pub fn tree_event(t: &T, path: &str, kind: &str) -> J {
    let st = lt(t);
    let res = catch(|| {
        let bb = postcard::to_allocvec(st).map_err(|e| format!("{e:?}"));
        let owned: OwnedDataModelType = st.into();
        let bo = postcard::to_allocvec(&owned).map_err(|e| format!("{e:?}"));
        let dec: Result<OwnedDataModelType, String> = match &bb {
            Ok(b) => postcard::from_bytes(b).map_err(|e| format!("{e:?}")),
            Err(e) => Err(e.clone()),
        };
        let key_owned = Key::for_owned_schema_path(path, &owned).to_bytes();
        let key_const = postcard_schema::key::hash::fnv1a64::verif_hash_static(path, st);
        (bb, bo, owned, dec, key_owned, key_const)
    });
    let mut ev = json!({"op":"schema_tree","kind":kind,"tree":tj(t),"path":b(path)});
    match res {
        Err(p) => {
            ev["panic"] = json!(p);
        }
        Ok((bb, bo, owned, dec, ko, kc)) => {
            ev["bytes_borrowed"] = bb.map(|x| json!(x)).unwrap_or_else(|e| json!({"err":e}));
            ev["bytes_owned"] = bo.map(|x| json!(x)).unwrap_or_else(|e| json!({"err":e}));
            ev["owned_tree"] = ot(&owned);
            ev["borrowed_tree"] = bt(st);
            ev["decoded_tree"] = dec.as_ref().map(ot).unwrap_or_else(|e| json!({"err":e}));
            ev["decoded_eq_conv"] = json!(dec.as_ref().map(|d| (*d == owned) as u8).unwrap_or(0));
            ev["key_owned"] = json!(ko);
            ev["key_const"] = json!(kc);
            let o2 = owned.clone();
            match catch(move || o2.all_used_types().iter().map(ot).collect::<Vec<_>>()) {
                Ok(u) => ev["used"] = json!(u),
                Err(p) => ev["used_panic"] = json!(p),
            }
            let o3 = owned.clone();
            match catch(move || (o3.to_pseudocode(), o3.to_string())) {
                Ok((pc, ds)) => {
                    ev["rendered"] = b(&pc);
                    ev["display"] = b(&ds);
                }
                Err(p) => ev["render_panic"] = json!(p),
            }
        }
    }
    ev
}

/// a chain of `depth` one-child wrappers of every composite kind around a primitive (deeper than any recursion guard one
/// might be tempted to add: the statements quantify over every schema)
pub fn deep_tree(r: &mut StdRng, depth: usize) -> T {
    let mut t = T::Prim(["U8", "String", "Bool", "F64", "Unit"][r.gen_range(0..5)]);
    // the JSON reader of the trace validator nests at most 255 levels: mostly wrappers that cost one or two levels,
    // the two expensive ones (named field, enum variant) at a few random positions
    let costly: Vec<usize> = (0..4).map(|_| r.gen_range(0..depth)).collect();
    for i in 0..depth {
        let pick = if costly.contains(&i) { r.gen_range(5..7) } else { r.gen_range(0..5) };
        t = match pick {
            0 => T::Option(Box::new(t)),
            1 => T::Seq(Box::new(t)),
            2 => T::Tuple(vec![t]),
            3 => T::Map(Box::new(T::Prim("String")), Box::new(t)),
            4 => T::Struct(format!("S{i}"), D::Newtype(Box::new(t))),
            5 => T::Struct(format!("N{i}"), D::Struct(vec![(format!("f{i}"), t)])),
            _ => T::Enum(format!("E{i}"), vec![("A".into(), D::Unit), (format!("V{i}"), D::Tuple(vec![t]))]),
        };
    }
    t
}
/// long homogeneous tuples (arrays) compressed for the log: {"k":"Tuple","rep":n,"t":element}
fn compress(j: &J) -> J {
    match j {
        J::Array(a) => J::Array(a.iter().map(compress).collect()),
        J::Object(o) => {
            if o.get("k") == Some(&json!("Tuple")) {
                if let Some(J::Array(ts)) = o.get("ts") {
                    if ts.len() > 1000 && ts.iter().all(|x| *x == ts[0]) {
                        return json!({"k":"Tuple","rep":ts.len(),"t":compress(&ts[0])});
                    }
                }
            }
            J::Object(o.iter().map(|(k, v)| (k.clone(), compress(v))).collect())
        }
        x => x.clone(),
    }
}
/// `struct Big { arr: [elem; n] }` with n in the tens of thousands: too large to log element by element, so the event
/// carries the serialisation split into (bytes before the elements, one element, repetition count, bytes after) and
/// the trees in compressed form; everything else is observed as for `schema_tree`.
pub fn big_event(elem: &T, n: usize, path: &str) -> J {
    use postcard_schema::schema::{Data, DataModelType as M, NamedField};
    let est = lt(elem);
    let arr: &'static M = Box::leak(Box::new(M::Tuple(Box::leak(vec![est; n].into_boxed_slice()))));
    let fields: &'static [&'static NamedField] = Box::leak(vec![&*Box::leak(Box::new(NamedField { name: "arr", ty: arr }))].into_boxed_slice());
    let st: &'static M = Box::leak(Box::new(M::Struct { name: "Big", data: Data::Struct(fields) }));
    let mut ev = json!({"op":"schema_big","n":n,"elem":tj(elem),"path":b(path),
        "tree":{"k":"Struct","name":b("Big"),"data":{"k":"Struct","fs":[{"name":b("arr"),"ty":{"k":"Tuple","rep":n,"t":tj(elem)}}]}}});
    let res = catch(|| {
        let bb = postcard::to_allocvec(st).map_err(|e| format!("{e:?}"));
        let owned: OwnedDataModelType = st.into();
        let bo = postcard::to_allocvec(&owned).map_err(|e| format!("{e:?}"));
        let dec: Result<(OwnedDataModelType, usize), String> = match &bb {
            Ok(b) => postcard::take_from_bytes::<OwnedDataModelType>(b).map(|(d, rest)| (d, rest.len())).map_err(|e| format!("{e:?}")),
            Err(e) => Err(e.clone()),
        };
        let key_owned = Key::for_owned_schema_path(path, &owned).to_bytes();
        let key_const = postcard_schema::key::hash::fnv1a64::verif_hash_static(path, st);
        (bb, bo, owned, dec, key_owned, key_const)
    });
    match res {
        Err(p) => {
            ev["panic"] = json!(p);
        }
        Ok((bb, bo, owned, dec, ko, kc)) => {
            let e_enc = postcard::to_allocvec(est).unwrap_or_default();
            let split = |x: &Result<Vec<u8>, String>| -> J {
                match x {
                    Err(e) => json!({"err":e}),
                    Ok(v) => {
                        let q = e_enc.len().max(1);
                        let total = q * n;
                        // the elements are the last thing in this tree: the run of n copies ends the serialisation
                        let p = v.len().saturating_sub(total);
                        let periodic = v.len() >= total && (0..n).all(|i| v[p + i * q..p + (i + 1) * q] == e_enc[..]);
                        json!({"pre": v[..p], "period": e_enc, "reps": if periodic { n } else { 0 }, "len": v.len()})
                    }
                }
            };
            ev["bytes_borrowed"] = split(&bb);
            ev["bytes_owned"] = split(&bo);
            ev["owned_tree"] = compress(&ot(&owned));
            ev["decoded_tree"] = dec.as_ref().map(|d| compress(&ot(&d.0))).unwrap_or_else(|e| json!({"err":e}));
            ev["decoded_eq_conv"] = json!(dec.as_ref().map(|d| (d.0 == owned) as u8).unwrap_or(0));
            ev["decoded_rest"] = json!(dec.as_ref().map(|d| d.1 as i64).unwrap_or(-1));
            ev["key_owned"] = json!(ko);
            ev["key_const"] = json!(kc);
            let o2 = owned.clone();
            match catch(move || o2.all_used_types().iter().map(|t| compress(&ot(t))).collect::<Vec<_>>()) {
                Ok(u) => ev["used"] = json!(u),
                Err(p) => ev["used_panic"] = json!(p),
            }
            let o3 = owned.clone();
            match catch(move || (o3.to_pseudocode(), o3.to_string())) {
                Ok((pc, ds)) => {
                    // the rendering of a long array is short ("[T; N]"), log it whole
                    ev["rendered"] = b(&pc);
                    ev["display"] = b(&ds);
                }
                Err(p) => ev["render_panic"] = json!(p),
            }
        }
    }
    ev
}

pub fn run(a: &Args) {
    let n = a.num("n", 100);
    let seed = a.num("seed", 1);
    let depth = a.num("depth", 4) as u32;
    let nmut = a.num("mutants", 12) as usize;
    let mut r = StdRng::seed_from_u64(seed ^ 0x5c4e);
    let mut out = std::io::BufWriter::new(std::fs::File::create(a.str("out", "/dev/stdout")).unwrap());
    let marker = a.get("marker").map(|s| s.to_string());
    let mut cnt = 0u64;
    for i in 0..n {
        vcommon::obs::mark_case(&marker, &format!("trees:{seed}:{i}"));
        let t = gt(&mut r, if i % 5 == 0 { depth + 1 } else { depth }, 5);
        let path = match i % 5 { 0 => String::new(), 1 => "test_path".to_string(), 2 => format!("{}/é€😀", name(&mut r)), 3 => "x".repeat(r.gen_range(50..300)), _ => name(&mut r) + "/p" };
        writeln!(out, "{}", tree_event(&t, &path, "random")).unwrap();
        cnt += 1;
        // every single-node mutant (bounded) is hashed/serialised too and judged against the specification of the mutant
        let mut ms = vec![];
        mutants(&t, &mut ms);
        for m in ms.iter().take(nmut) {
            writeln!(out, "{}", tree_event(m, &path, "mutant")).unwrap();
            cnt += 1;
        }
        if i % 7 == 0 {
            writeln!(out, "{}", tree_event(&t, &(path.clone() + "2"), "path-mutant")).unwrap();
            cnt += 1;
        }
    }
    // deep chains (beyond any plausible recursion guard) and long arrays (beyond any plausible pre-allocation cap or digit buffer)
    for d in [65usize, 66, 70 + (seed % 20) as usize] {
        vcommon::obs::mark_case(&marker, &format!("trees-deep:{seed}:{d}"));
        let t = deep_tree(&mut r, d);
        writeln!(out, "{}", tree_event(&t, "deep/path", "deep")).unwrap();
        cnt += 1;
    }
    let elems = [T::Prim("U8"), T::Option(Box::new(T::Prim("Bool"))), T::Struct("P".into(), D::Tuple(vec![T::Prim("U16"), T::Prim("String")]))];
    for (i, nn) in [1001usize, 30000 + (seed % 7) as usize, 100000 + (seed % 1000) as usize, 131072].iter().enumerate() {
        vcommon::obs::mark_case(&marker, &format!("trees-big:{seed}:{nn}"));
        writeln!(out, "{}", big_event(&elems[(i + seed as usize) % 3], *nn, "big/path")).unwrap();
        cnt += 1;
    }
    out.flush().unwrap();
    eprintln!("trees: {cnt} events");
}

/// replay trees enumerated by TLC ({tree, path} per line)
pub fn run_vectors(a: &Args) {
    let inp = std::fs::read_to_string(a.get("in").expect("--in")).expect("read");
    let mut out = std::io::BufWriter::new(std::fs::File::create(a.str("out", "/dev/stdout")).unwrap());
    let mut cnt = 0;
    for line in inp.lines() {
        if line.trim().is_empty() {
            continue;
        }
        let j: J = serde_json::from_str(line).expect("json");
        let t = t_from(&j["tree"]);
        let path = ub(&j["path"]);
        writeln!(out, "{}", tree_event(&t, &path, "vector")).unwrap();
        cnt += 1;
    }
    out.flush().unwrap();
    eprintln!("trees-vec: {cnt} events");
}
