//! Schema trees owned by the harness: generation, leaking into `&'static DataModelType`, independent walkers
//! over the borrowed and the owned representation, single-node mutants.
use crate::Args;
use postcard_schema::key::Key;
use postcard_schema::schema::owned::*;

use rand::{rngs::StdRng, Rng, SeedableRng};
use serde_json::{json, Value as J};
use std::io::Write;
use vcommon::obs::catch;

pub use vcommon::stree::*;

/// everything the harness can observe about one tree
pub fn tree_event(t: &T, path: &str, kind: &str) -> J {
    let st = lt(t);
    let res = catch(|| {
        let bb = postcard::to_allocvec(st).map_err(|e| format!("{e:?}"));
        let owned: OwnedDataModelType = st.into();
        let bo = postcard::to_allocvec(&owned).map_err(|e| format!("{e:?}"));
        let dec: Result<OwnedDataModelType, String> = match &bb {
            Ok(b) => postcard::from_bytes(b).map_err(|e| format!("{e:?}")),
            Err(e) => Err(e.clone()),
        };
        let key_owned = Key::for_owned_schema_path(path, &owned).to_bytes();
        let key_const = postcard_schema::key::hash::fnv1a64::verif_hash_static(path, st);
        (bb, bo, owned, dec, key_owned, key_const)
    });
    let mut ev = json!({"op":"schema_tree","kind":kind,"tree":tj(t),"path":b(path)});
    match res {
        Err(p) => {
            ev["panic"] = json!(p);
        }
        Ok((bb, bo, owned, dec, ko, kc)) => {
            ev["bytes_borrowed"] = bb.map(|x| json!(x)).unwrap_or_else(|e| json!({"err":e}));
            ev["bytes_owned"] = bo.map(|x| json!(x)).unwrap_or_else(|e| json!({"err":e}));
            ev["owned_tree"] = ot(&owned);
            ev["borrowed_tree"] = bt(st);
            ev["decoded_tree"] = dec.as_ref().map(ot).unwrap_or_else(|e| json!({"err":e}));
            ev["decoded_eq_conv"] = json!(dec.as_ref().map(|d| (*d == owned) as u8).unwrap_or(0));
            ev["key_owned"] = json!(ko);
            ev["key_const"] = json!(kc);
            let o2 = owned.clone();
            match catch(move || o2.all_used_types().iter().map(ot).collect::<Vec<_>>()) {
                Ok(u) => ev["used"] = json!(u),
                Err(p) => ev["used_panic"] = json!(p),
            }
            let o3 = owned.clone();
            match catch(move || (o3.to_pseudocode(), o3.to_string())) {
                Ok((pc, ds)) => {
                    ev["rendered"] = b(&pc);
                    ev["display"] = b(&ds);
                }
                Err(p) => ev["render_panic"] = json!(p),
            }
        }
    }
    ev
}

pub fn run(a: &Args) {
    let n = a.num("n", 100);
    let seed = a.num("seed", 1);
    let depth = a.num("depth", 4) as u32;
    let nmut = a.num("mutants", 12) as usize;
    let mut r = StdRng::seed_from_u64(seed ^ 0x5c4e);
    let mut out = std::io::BufWriter::new(std::fs::File::create(a.str("out", "/dev/stdout")).unwrap());
    let marker = a.get("marker").map(|s| s.to_string());
    let mut cnt = 0u64;
    for i in 0..n {
        vcommon::obs::mark_case(&marker, &format!("trees:{seed}:{i}"));
        let t = gt(&mut r, if i % 5 == 0 { depth + 1 } else { depth }, 5);
        let path = match i % 5 { 0 => String::new(), 1 => "test_path".to_string(), 2 => format!("{}/é€😀", name(&mut r)), 3 => "x".repeat(r.gen_range(50..300)), _ => name(&mut r) + "/p" };
        writeln!(out, "{}", tree_event(&t, &path, "random")).unwrap();
        cnt += 1;
        // every single-node mutant (bounded) is hashed/serialised too and judged against the specification of the mutant
        let mut ms = vec![];
        mutants(&t, &mut ms);
        for m in ms.iter().take(nmut) {
            writeln!(out, "{}", tree_event(m, &path, "mutant")).unwrap();
            cnt += 1;
        }
        if i % 7 == 0 {
            writeln!(out, "{}", tree_event(&t, &(path.clone() + "2"), "path-mutant")).unwrap();
            cnt += 1;
        }
    }
    out.flush().unwrap();
    eprintln!("trees: {cnt} events");
}

/// replay trees enumerated by TLC ({tree, path} per line)
pub fn run_vectors(a: &Args) {
    let inp = std::fs::read_to_string(a.get("in").expect("--in")).expect("read");
    let mut out = std::io::BufWriter::new(std::fs::File::create(a.str("out", "/dev/stdout")).unwrap());
    let mut cnt = 0;
    for line in inp.lines() {
        if line.trim().is_empty() {
            continue;
        }
        let j: J = serde_json::from_str(line).expect("json");
        let t = t_from(&j["tree"]);
        let path = ub(&j["path"]);
        writeln!(out, "{}", tree_event(&t, &path, "vector")).unwrap();
        cnt += 1;
    }
    out.flush().unwrap();
    eprintln!("trees-vec: {cnt} events");
}
