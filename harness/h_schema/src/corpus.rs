//! C14 / C16 corpus: every built-in `Schema` implementor and derived structs/enums of every form, with
//! generated values covering every variant. For each value: the borrowed SCHEMA (walked independently),
//! the serde call tree, the postcard bytes, and the type's compile-time key.
use crate::trees::{b, bt};
use crate::Args;
use postcard_schema::key::Key;
use postcard_schema::schema::owned::OwnedDataModelType;
use postcard_schema::schema::DataModelType;
use postcard_schema::Schema;
use rand::{rngs::StdRng, Rng, SeedableRng};
use serde::Serialize;
use serde_json::{json, Value as J};
use std::collections::{BTreeMap, BTreeSet, HashMap, HashSet};
use std::io::Write;
use std::num::*;
use vcommon::obs::catch;
use vcommon::tree::call_tree;

pub struct W(pub std::io::BufWriter<std::fs::File>, pub u64);
fn emit<T: Schema + Serialize + ?Sized>(out: &mut W, ty: &str, v: &T) {
    let path = format!("corpus/{ty}");
    let r = catch(|| {
        let tree = call_tree(v).map_err(|e| e.0);
        let bytes = postcard::to_allocvec(v).map_err(|e| format!("{e:?}"));
        (tree, bytes)
    });
    let mut ev = json!({"op":"conform","ty":ty,"schema":bt(T::SCHEMA),"path":b(&path),"key_type":Key::for_path::<T>(&path).to_bytes()});
    match r {
        Ok((tree, bytes)) => {
            ev["tree"] = tree.unwrap_or_else(|e| json!({"c":"error","msg":e}));
            ev["bytes"] = bytes.map(|x| json!(x)).unwrap_or_else(|e| json!({"err":e}));
        }
        Err(p) => ev["panic"] = json!(p),
    }
    writeln!(out.0, "{}", ev).unwrap();
    out.1 += 1;
}

// ------------------------------------------------------------------ derived corpus
#[derive(Serialize, Schema)]
struct UnitS;
#[derive(Serialize, Schema)]
struct NewtypeS(u32);
#[derive(Serialize, Schema)]
struct NewtypeStr<'a>(&'a str);
#[derive(Serialize, Schema)]
struct TupleS(u8, i16, String);
#[derive(Serialize, Schema)]
struct TupleS1(bool, bool);
#[derive(Serialize, Schema)]
struct EmptyTupleS();
#[derive(Serialize, Schema)]
struct EmptyNamedS {}
#[derive(Serialize, Schema)]
struct Named {
    a: u8,
    b: i64,
    c: Option<bool>,
    d: Vec<u16>,
}
#[derive(Serialize, Schema)]
struct OneField {
    only: u64,
}
#[derive(Serialize, Schema)]
struct Borrowing<'a> {
    name: &'a str,
    data: &'a [u8],
    n: u32,
}
#[derive(Serialize, Schema)]
struct Generic<A, B> {
    first: A,
    second: B,
    both: (A, B),
}
#[derive(Serialize, Schema)]
struct Nested {
    inner: Named,
    e: Mixed,
    list: Vec<Small>,
    opt: Option<Box3>,
    arr: [Small; 3],
}
#[derive(Serialize, Schema)]
struct Box3 {
    x: f32,
    y: f64,
    z: char,
}
#[derive(Serialize, Schema, Clone, Copy)]
enum Small {
    A,
    B,
    C,
}
#[derive(Serialize, Schema)]
enum Mixed {
    Unit,
    Newtype(u32),
    Tuple(u8, String),
    Struct { x: i32, y: i32 },
    OneNamed { level: u16 },
    EmptyTuple(),
    EmptyStruct {},
    Nest(Small),
    Deep(Option<Vec<(u8, Small)>>),
}
#[derive(Serialize, Schema)]
enum OnlyOne {
    Lone(u8),
}
#[derive(Serialize, Schema)]
enum GenericE<T> {
    None_,
    Some_(T),
    Pair { l: T, r: T },
}
#[derive(Serialize, Schema)]
struct WithMaps {
    m: BTreeMap<String, u32>,
    s: BTreeSet<u8>,
    r: Result<u8, String>,
    t: (u8, (u16, u32), [u8; 2]),
}
#[derive(Serialize, Schema)]
struct Wide {
    a: u128,
    b: i128,
    c: NonZeroU64,
    d: (),
    e: [u16; 0],
}
// raw identifiers: serde names the field/variant without the r# prefix
#[derive(Serialize, Schema)]
struct RawIds {
    r#type: u8,
    plain: u16,
    r#fn: bool,
}
#[allow(non_camel_case_types)]
#[derive(Serialize, Schema)]
enum RawVariants {
    r#match,
    Other { r#loop: u8 },
    r#box(u8),
}
// field-less forms of every kind side by side
#[derive(Serialize, Schema)]
enum EmptyForms {
    U,
    T(),
    S {},
}
// serde attributes that change what Serialize writes; derive(Schema) does not read them (known finding C14-derive-ignores-serde-attrs)
#[derive(Serialize, Schema)]
struct SerdeRenamed {
    #[serde(rename = "kind")]
    ty: u8,
    other: u8,
}
#[derive(Serialize, Schema)]
struct SerdeSkipped {
    a: u8,
    #[serde(skip)]
    #[allow(dead_code)]
    b: u16,
    c: bool,
}
#[derive(Serialize, Schema)]
#[serde(rename_all = "snake_case")]
enum SerdeRenameAll {
    FirstThing,
    SecondThing(u8),
}

pub fn run(a: &Args) {
    let seed = a.num("seed", 1);
    let reps = a.num("reps", 3);
    let mut r = StdRng::seed_from_u64(seed ^ 0xc0f);
    let mut out = W(std::io::BufWriter::new(std::fs::File::create(a.str("out", "/dev/stdout")).unwrap()), 0);
    let o = &mut out;
    for _ in 0..reps {
        // ---- primitives
        emit(o, "u8", &r.gen::<u8>());
        emit(o, "i8", &r.gen::<i8>());
        emit(o, "u16", &r.gen::<u16>());
        emit(o, "i16", &r.gen::<i16>());
        emit(o, "u32", &r.gen::<u32>());
        emit(o, "i32", &r.gen::<i32>());
        emit(o, "u64", &r.gen::<u64>());
        emit(o, "i64", &r.gen::<i64>());
        emit(o, "u128", &r.gen::<u128>());
        emit(o, "i128", &r.gen::<i128>());
        emit(o, "bool", &r.gen::<bool>());
        emit(o, "f32", &f32::from_bits(r.gen()));
        emit(o, "f64", &f64::from_bits(r.gen()));
        emit(o, "char", &['a', 'é', '€', '😀'][r.gen_range(0..4)]);
        emit(o, "()", &());
        emit::<str>(o, "str", "héllo");
        emit(o, "&str", &"x");
        emit(o, "String", &String::from("owned"));
        emit(o, "PathBuf", &std::path::PathBuf::from("/tmp/ä/file.txt"));
        emit(o, "NonZeroU8", &NonZeroU8::new(r.gen_range(1..=255)).unwrap());
        emit(o, "NonZeroI8", &NonZeroI8::new(-3).unwrap());
        emit(o, "NonZeroU16", &NonZeroU16::new(r.gen_range(1..=65535)).unwrap());
        emit(o, "NonZeroI16", &NonZeroI16::new(-300).unwrap());
        emit(o, "NonZeroU32", &NonZeroU32::new(r.gen_range(1..=u32::MAX)).unwrap());
        emit(o, "NonZeroI32", &NonZeroI32::new(i32::MIN).unwrap());
        emit(o, "NonZeroU64", &NonZeroU64::new(u64::MAX).unwrap());
        emit(o, "NonZeroI64", &NonZeroI64::new(-1).unwrap());
        emit(o, "NonZeroU128", &NonZeroU128::new(u128::MAX).unwrap());
        emit(o, "NonZeroI128", &NonZeroI128::new(i128::MIN).unwrap());
        // ---- tuples, arrays, slices, collections
        emit(o, "(u8,)", &(r.gen::<u8>(),));
        emit(o, "(u8,u16)", &(r.gen::<u8>(), r.gen::<u16>()));
        emit(o, "(u8,u16,bool)", &(1u8, 2u16, true));
        emit(o, "(u8,u16,bool,i8)", &(1u8, 2u16, true, -1i8));
        emit(o, "(5)", &(1u8, 2u16, true, -1i8, 'c'));
        emit(o, "(6)", &(1u8, 2u16, true, -1i8, 'c', "s"));
        emit(o, "[u8;0]", &[0u8; 0]);
        emit(o, "[u16;3]", &[r.gen::<u16>(), 2, 3]);
        emit(o, "[[u8;2];2]", &[[1u8, 2], [3, 4]]);
        emit(o, "[(u8,bool);2]", &[(1u8, true), (2, false)]);
        emit::<[u32]>(o, "[u32]", &[1, 2, r.gen()][..]);
        emit(o, "&[u8]", &&[1u8, 2, 3][..]);
        emit(o, "Vec<u8>", &vec![1u8, 2, 3]);
        emit(o, "Vec<String>", &vec![String::from("a"), String::new()]);
        emit(o, "Vec<Vec<u16>>", &vec![vec![1u16], vec![], vec![2, 3]]);
        emit(o, "HashSet<u8>", &[r.gen::<u8>(), 7].into_iter().collect::<HashSet<u8>>());
        emit(o, "BTreeSet<i32>", &[r.gen::<i32>(), 7, -7].into_iter().collect::<BTreeSet<i32>>());
        emit(o, "HashMap<u8,String>", &[(1u8, "one".to_string())].into_iter().collect::<HashMap<_, _>>());
        emit(o, "BTreeMap<String,Vec<u8>>", &[("k".to_string(), vec![1u8]), ("l".to_string(), vec![])].into_iter().collect::<BTreeMap<_, _>>());
        emit(o, "Option<u8>::Some", &Some(r.gen::<u8>()));
        emit(o, "Option<u8>::None", &Option::<u8>::None);
        emit(o, "Option<Option<()>>", &Some(Option::<()>::None));
        emit(o, "Result<u8,String>::Ok", &Result::<u8, String>::Ok(3));
        emit(o, "Result<u8,String>::Err", &Result::<u8, String>::Err("bad".into()));
        emit(o, "&&u32", &&&5u32);
        emit(o, "Range<u8>", &(1u8..9));
        emit(o, "RangeInclusive<i16>", &(-3i16..=9));
        emit(o, "RangeFrom<u32>", &(7u32..));
        emit(o, "RangeTo<u64>", &(..9u64));
        // ---- integrations
        let mut hv7: heapless07::Vec<u16, 4> = heapless07::Vec::new();
        hv7.push(1).unwrap();
        hv7.push(r.gen()).unwrap();
        emit(o, "heapless07::Vec<u16,4>", &hv7);
        emit(o, "heapless07::String<8>", &heapless07::String::<8>::from("hé"));
        let mut hv8: heapless08::Vec<(u8, bool), 3> = heapless08::Vec::new();
        hv8.push((1, true)).unwrap();
        emit(o, "heapless08::Vec<(u8,bool),3>", &hv8);
        let mut hs8: heapless08::String<8> = heapless08::String::new();
        hs8.push_str("h8").unwrap();
        emit(o, "heapless08::String<8>", &hs8);
        emit(o, "Uuid", &uuid::Uuid::from_bytes(r.gen()));
        emit(o, "DateTime<Utc>", &chrono::DateTime::<chrono::Utc>::from_timestamp(r.gen_range(0..2_000_000_000), 123).unwrap());
        emit(o, "DateTime<FixedOffset>", &chrono::DateTime::<chrono::Utc>::from_timestamp(1_700_000_000, 0).unwrap().with_timezone(&chrono::FixedOffset::east_opt(3600).unwrap()));
        emit(o, "SMatrix<u8,3,3>", &nalgebra::SMatrix::<u8, 3, 3>::new(1, 2, 3, 4, 5, 6, 7, 8, 9));
        emit(o, "SMatrix<f32,2,3>", &nalgebra::SMatrix::<f32, 2, 3>::new(1.0, 2.0, 3.0, 4.0, 5.0, 6.0));
        emit(o, "SMatrix<u16,3,1>", &nalgebra::SMatrix::<u16, 3, 1>::new(1, 2, 3));
        emit(o, "SMatrix<i32,1,4>", &nalgebra::SMatrix::<i32, 1, 4>::new(1, 2, 3, 4));
        emit(o, "SMatrix<u8,1,1>", &nalgebra::SMatrix::<u8, 1, 1>::new(9));
        emit(o, "Key", &Key::for_path::<u8>("some/path"));
        // the schema types themselves
        emit::<DataModelType>(o, "DataModelType(Named)", Named::SCHEMA);
        emit::<DataModelType>(o, "DataModelType(Mixed)", Mixed::SCHEMA);
        emit::<DataModelType>(o, "DataModelType(WithMaps)", WithMaps::SCHEMA);
        emit(o, "OwnedDataModelType(Nested)", &OwnedDataModelType::from(Nested::SCHEMA));
        emit(o, "OwnedDataModelType(tuple)", &OwnedDataModelType::from(<(u8, Option<[u16; 2]>)>::SCHEMA));
        // ---- derived
        emit(o, "UnitS", &UnitS);
        emit(o, "NewtypeS", &NewtypeS(r.gen()));
        emit(o, "NewtypeStr", &NewtypeStr("borrowed"));
        emit(o, "TupleS", &TupleS(1, -2, "three".into()));
        emit(o, "TupleS1", &TupleS1(true, false));
        emit(o, "EmptyTupleS", &EmptyTupleS());
        emit(o, "EmptyNamedS", &EmptyNamedS {});
        emit(o, "Named", &Named { a: r.gen(), b: r.gen(), c: Some(true), d: vec![1, 2] });
        emit(o, "OneField", &OneField { only: r.gen() });
        emit(o, "Borrowing", &Borrowing { name: "n", data: &[1, 2, 3], n: 7 });
        emit(o, "Generic<u8,String>", &Generic { first: 1u8, second: "s".to_string(), both: (2u8, "t".to_string()) });
        emit(o, "Generic<Small,Option<u16>>", &Generic { first: Small::B, second: Some(3u16), both: (Small::C, None) });
        for s in [Small::A, Small::B, Small::C] {
            emit(o, "Small", &s);
        }
        let mixed = [
            Mixed::Unit, Mixed::Newtype(r.gen()), Mixed::Tuple(1, "t".into()), Mixed::Struct { x: -1, y: 1 }, Mixed::OneNamed { level: r.gen() },
            Mixed::EmptyTuple(), Mixed::EmptyStruct {}, Mixed::Nest(Small::C), Mixed::Deep(Some(vec![(1, Small::A), (2, Small::B)])), Mixed::Deep(None),
        ];
        for m in &mixed {
            emit(o, "Mixed", m);
        }
        emit(o, "OnlyOne", &OnlyOne::Lone(r.gen()));
        emit(o, "GenericE<u8>::None_", &GenericE::<u8>::None_);
        emit(o, "GenericE<u8>::Some_", &GenericE::Some_(r.gen::<u8>()));
        emit(o, "GenericE<String>::Pair", &GenericE::Pair { l: "l".to_string(), r: "r".to_string() });
        emit(o, "Nested", &Nested {
            inner: Named { a: 1, b: -1, c: None, d: vec![] },
            e: Mixed::OneNamed { level: 3 },
            list: vec![Small::A, Small::C],
            opt: Some(Box3 { x: 1.5, y: -2.5, z: '€' }),
            arr: [Small::A, Small::B, Small::C],
        });
        emit(o, "WithMaps", &WithMaps {
            m: [("a".to_string(), 1u32), ("b".to_string(), 2)].into_iter().collect(),
            s: [3u8, 1, 2].into_iter().collect(),
            r: Err("e".into()),
            t: (1, (2, 3), [4, 5]),
        });
        emit(o, "RawIds", &RawIds { r#type: r.gen(), plain: r.gen(), r#fn: true });
        emit(o, "RawVariants::match", &RawVariants::r#match);
        emit(o, "RawVariants::Other", &RawVariants::Other { r#loop: r.gen() });
        emit(o, "RawVariants::box", &RawVariants::r#box(r.gen()));
        emit(o, "serde-attr/rename", &SerdeRenamed { ty: r.gen(), other: 1 });
        emit(o, "serde-attr/skip", &SerdeSkipped { a: r.gen(), b: 0x1234, c: true });
        emit(o, "serde-attr/rename_all", &SerdeRenameAll::FirstThing);
        emit(o, "serde-attr/rename_all", &SerdeRenameAll::SecondThing(r.gen()));
        emit(o, "EmptyForms::U", &EmptyForms::U);
        emit(o, "EmptyForms::T", &EmptyForms::T());
        emit(o, "EmptyForms::S", &EmptyForms::S {});
        emit(o, "Wide", &Wide { a: r.gen(), b: r.gen(), c: NonZeroU64::new(5).unwrap(), d: (), e: [] });
    }
    out.0.flush().unwrap();
    eprintln!("conform: {} events", out.1);
}
#[allow(dead_code)]
fn _unused(_: J) {}
