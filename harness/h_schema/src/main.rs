//! h_schema: drivers for postcard-schema (C14, C15, C16, C19).
//!  trees   - random / enumerated schema trees: borrowed vs owned serialisation, conversion, both key hashers,
//!            used-type collection, rendering (C15, C16, C19)
//!  conform - every built-in Schema implementor and a corpus of derived types: the borrowed SCHEMA walked
//!            independently, the serde call tree of generated values, the postcard bytes, the type's key (C14, C16)
mod corpus;
mod trees;

use std::collections::HashMap;
pub struct Args(pub HashMap<String, String>);
impl Args {
    pub fn get(&self, k: &str) -> Option<&str> {
        self.0.get(k).map(|s| s.as_str())
    }
    pub fn num(&self, k: &str, d: u64) -> u64 {
        self.get(k).map(|s| s.parse().expect("number")).unwrap_or(d)
    }
    pub fn str(&self, k: &str, d: &str) -> String {
        self.get(k).unwrap_or(d).to_string()
    }
}
fn main() {
    let mut a = std::env::args().skip(1);
    let cmd = a.next().expect("subcommand");
    let rest: Vec<String> = a.collect();
    let mut m = HashMap::new();
    let mut i = 0;
    while i < rest.len() {
        m.insert(rest[i].trim_start_matches("--").to_string(), rest.get(i + 1).cloned().unwrap_or_default());
        i += 2;
    }
    let args = Args(m);
    vcommon::obs::install_panic_hook();
    match cmd.as_str() {
        "trees" => trees::run(&args),
        "trees-vec" => trees::run_vectors(&args),
        "conform" => corpus::run(&args),
        "replay" => {
            // schema_tree events are rebuilt from the recorded tree and path; conform events are re-generated and matched by type name
            let inp = std::fs::read_to_string(args.get("in").expect("--in")).expect("read");
            let outp = args.str("out", "/dev/stdout");
            let mut lines = vec![];
            for line in inp.lines().filter(|l| !l.trim().is_empty()) {
                let e: serde_json::Value = serde_json::from_str(line).expect("json");
                if e["op"] == "schema_tree" {
                    let t = trees::t_from(&e["tree"]);
                    let path = trees::ub(&e["path"]);
                    lines.push(trees::tree_event(&t, &path, "replay").to_string());
                } else if e["op"] == "conform" {
                    let tmp = format!("{outp}.all");
                    let mut m = std::collections::HashMap::new();
                    m.insert("out".to_string(), tmp.clone());
                    m.insert("reps".to_string(), "1".to_string());
                    corpus::run(&Args(m));
                    let all = std::fs::read_to_string(&tmp).unwrap();
                    let _ = std::fs::remove_file(&tmp);
                    let hit = all.lines().find(|l| serde_json::from_str::<serde_json::Value>(l).map(|x| x["ty"] == e["ty"] && x["tree"]["c"] == e["tree"]["c"] && x["tree"]["i"] == e["tree"]["i"]).unwrap_or(false));
                    lines.push(hit.map(|s| s.to_string()).unwrap_or(line.to_string()));
                } else {
                    lines.push(line.to_string());
                }
            }
            std::fs::write(outp, lines.join("\n") + "\n").unwrap();
        }
        _ => panic!("unknown subcommand {cmd}"),
    }
}
