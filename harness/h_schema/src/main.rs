//! h_schema: drivers for postcard-schema (C14, C15, C16, C19).
//!  trees   - random / enumerated schema trees: borrowed vs owned serialisation, conversion, both key hashers,
//!            used-type collection, rendering (C15, C16, C19)
//!  conform - every built-in Schema implementor and a corpus of derived types: the borrowed SCHEMA walked
//!            independently, the serde call tree of generated values, the postcard bytes, the type's key (C14, C16)
mod corpus;
mod trees;

use std::collections::HashMap;
pub struct Args(HashMap<String, String>);
impl Args {
    pub fn get(&self, k: &str) -> Option<&str> {
        self.0.get(k).map(|s| s.as_str())
    }
    pub fn num(&self, k: &str, d: u64) -> u64 {
        self.get(k).map(|s| s.parse().expect("number")).unwrap_or(d)
    }
    pub fn str(&self, k: &str, d: &str) -> String {
        self.get(k).unwrap_or(d).to_string()
    }
}
fn main() {
    let mut a = std::env::args().skip(1);
    let cmd = a.next().expect("subcommand");
    let rest: Vec<String> = a.collect();
    let mut m = HashMap::new();
    let mut i = 0;
    while i < rest.len() {
        m.insert(rest[i].trim_start_matches("--").to_string(), rest.get(i + 1).cloned().unwrap_or_default());
        i += 2;
    }
    let args = Args(m);
    vcommon::obs::install_panic_hook();
    match cmd.as_str() {
        "trees" => trees::run(&args),
        "trees-vec" => trees::run_vectors(&args),
        "conform" => corpus::run(&args),
        _ => panic!("unknown subcommand {cmd}"),
    }
}
