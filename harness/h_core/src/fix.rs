//! C13: fixed-width integer adapters. Values are built arithmetically from chosen limbs so that the
//! oracle (the specification) is independent of the byte-order conversion under test.
use crate::common::*;
use crate::wire::{decode, encode, DEC_ENTRIES, ENC_ENTRIES};
use crate::Args;
use rand::{rngs::StdRng, Rng, SeedableRng};
use serde::{Deserialize, Serialize};
use serde_json::json;
use vcommon::obs::catch;
use vcommon::val::*;

fn from_limbs(l: &[u8]) -> u128 {
    let mut x = 0u128;
    for (i, b) in l.iter().enumerate() {
        x += (*b as u128) << (8 * i as u32);
    }
    x
}

#[derive(Serialize, Deserialize, Debug, PartialEq)]
struct FixAll {
    lead: u8,
    #[serde(with = "postcard::fixint::le")]
    a: u16,
    #[serde(with = "postcard::fixint::be")]
    b: u16,
    #[serde(with = "postcard::fixint::le")]
    c: i16,
    #[serde(with = "postcard::fixint::be")]
    d: i16,
    #[serde(with = "postcard::fixint::le")]
    e: u32,
    #[serde(with = "postcard::fixint::be")]
    f: u32,
    #[serde(with = "postcard::fixint::le")]
    g: i32,
    #[serde(with = "postcard::fixint::be")]
    h: i32,
    #[serde(with = "postcard::fixint::le")]
    i: u64,
    #[serde(with = "postcard::fixint::be")]
    j: u64,
    #[serde(with = "postcard::fixint::le")]
    k: i64,
    #[serde(with = "postcard::fixint::be")]
    l: i64,
    #[serde(with = "postcard::fixint::le")]
    m: u128,
    #[serde(with = "postcard::fixint::be")]
    n: u128,
    #[serde(with = "postcard::fixint::le")]
    o: i128,
    #[serde(with = "postcard::fixint::be")]
    p: i128,
    trail: u16,
}
fn fixall_shape() -> Shape {
    let mut fs = vec![("lead".to_string(), Shape::U8)];
    for (i, k) in [IntK::U16, IntK::I16, IntK::U32, IntK::I32, IntK::U64, IntK::I64, IntK::U128, IntK::I128].iter().enumerate() {
        fs.push((format!("le{i}"), Shape::Fix(false, *k)));
        fs.push((format!("be{i}"), Shape::Fix(true, *k)));
    }
    fs.push(("trail".to_string(), Shape::Int(IntK::U16)));
    Shape::Struct(fs)
}
fn fixall_val(x: &FixAll) -> Val {
    let i = |k: IntK, v: u128| Val::int(k, v);
    Val::Seq(vec![
        Val::U8(x.lead),
        i(IntK::U16, x.a as u128), i(IntK::U16, x.b as u128), i(IntK::I16, x.c as u16 as u128), i(IntK::I16, x.d as u16 as u128),
        i(IntK::U32, x.e as u128), i(IntK::U32, x.f as u128), i(IntK::I32, x.g as u32 as u128), i(IntK::I32, x.h as u32 as u128),
        i(IntK::U64, x.i as u128), i(IntK::U64, x.j as u128), i(IntK::I64, x.k as u64 as u128), i(IntK::I64, x.l as u64 as u128),
        i(IntK::U128, x.m), i(IntK::U128, x.n), i(IntK::I128, x.o as u128), i(IntK::I128, x.p as u128),
        Val::int(IntK::U16, x.trail as u128),
    ])
}

fn interesting(r: &mut StdRng, w: u32) -> Vec<u128> {
    let nb = (w / 8) as usize;
    let mut v = vec![0u128, if w == 128 { u128::MAX } else { (1u128 << w) - 1 }, 1u128 << (w - 1), (1u128 << (w - 1)) - 1, 1];
    // every single-byte-nonzero pattern
    for pos in 0..nb {
        for b in [1u8, 0x7f, 0x80, 0xff, r.gen_range(2..0x7f), r.gen_range(0x81..0xff)] {
            let mut l = vec![0u8; nb];
            l[pos] = b;
            v.push(from_limbs(&l));
        }
    }
    // all bytes distinct, so that any permutation of the bytes shows
    let l: Vec<u8> = (0..nb).map(|i| (i as u8 + 1) * 0x0f + 1).collect();
    v.push(from_limbs(&l));
    for _ in 0..24 {
        let l: Vec<u8> = (0..nb).map(|_| r.gen()).collect();
        v.push(from_limbs(&l));
    }
    v
}

pub fn run(a: &Args) {
    let seed = a.num("seed", 1);
    let shard = a.num("shard", 0);
    let shards = a.num("shards", 1);
    let full_single = a.num("fullbyte", 0) == 1;
    let mut r = StdRng::seed_from_u64(seed ^ 0xf1c5);
    let mut out = Out::new(&a.str("out", "/dev/stdout"));
    let mut case = 0u64;
    // (1) entire 16-bit domain, both signs and orders, as batch events
    for k in [IntK::U16, IntK::I16] {
        for be in [false, true] {
            let s = Shape::Fix(be, k);
            for hi in 0..=255u8 {
                case += 1;
                if case % shards != shard {
                    continue;
                }
                let mut outs = vec![];
                for lo in 0..=255u8 {
                    let v = Val::int(k, from_limbs(&[lo, hi]));
                    let o = catch(|| {
                        let b = postcard::to_allocvec(&SV(&s, &v))?;
                        let (d, rem) = with_shape(&s, || postcard::take_from_bytes::<DynVal>(&b))?;
                        Ok::<_, postcard::Error>((b.clone(), d.0, b.len() - rem.len()))
                    });
                    outs.push(match o {
                        Ok(Ok((b, d, used))) => json!([jb(&b), d.to_json(), used]),
                        Ok(Err(e)) => json!([errname(&e)]),
                        Err(p) => json!([format!("panic:{p}")]),
                    });
                }
                out.ev(json!({"op":"fixb","shape":s.to_json(),"hi":hi,"outs":outs}));
            }
        }
    }
    // (2) wider widths: structured and random values through every entry-point pairing
    for k in IntK::ALL {
        let mut vals = interesting(&mut r, k.width());
        if full_single {
            let nb = (k.width() / 8) as usize;
            for pos in 0..nb {
                for b in 1..=255u8 {
                    let mut l = vec![0u8; nb];
                    l[pos] = b;
                    vals.push(from_limbs(&l));
                }
            }
        }
        for be in [false, true] {
            for (vi, x) in vals.iter().enumerate() {
                case += 1;
                if case % shards != shard {
                    continue;
                }
                let bare = Shape::Fix(be, k);
                let (s, v) = if vi % 3 == 0 {
                    (bare.clone(), Val::int(k, *x))
                } else {
                    // embedded between ordinary fields: a varint fallback or a width slip shifts what follows
                    (
                        Shape::Struct(vec![("a".into(), Shape::U8), ("x".into(), bare.clone()), ("b".into(), Shape::Str), ("y".into(), Shape::Fix(!be, k))]),
                        Val::Seq(vec![Val::U8(r.gen()), Val::int(k, *x), Val::Str(b"ok".to_vec()), Val::int(k, *x)]),
                    )
                };
                let ee = vi % ENC_ENTRIES.len();
                let de = (vi / 2) % DEC_ENTRIES.len();
                let mut ev = json!({"op":"rt","shape":s.to_json(),"value":v.to_json(),"enc":ENC_ENTRIES[ee],"dec":DEC_ENTRIES[de],"tail":jb(&[7]),"via_owned":0});
                match encode(ee, &s, &v) {
                    Ok(b) => {
                        ev["bytes"] = jb(&b);
                        let mut inp = b.clone();
                        inp.push(7);
                        let mut extra = json!({});
                        ev["res"] = decode(de, &s, &inp, 0, &mut extra);
                        out.ev(ev);
                        // reader-based decoding with exactly the scratch the value needs (none for a bare fixed-width
                        // integer, 2 bytes for the embedded "ok" string): the adapters read byte by byte and need no scratch
                        if vi % 2 == 0 {
                            let need = if vi % 3 == 0 { 0 } else { 2 };
                            let eio = vi % 4 == 0;
                            let mut scratch = vec![0u8; need];
                            let mut rd = crate::transport::Io::reader(&inp, vec![1, 2], None);
                            let r = catch(|| {
                                with_shape(&s, || {
                                    if eio {
                                        postcard::from_eio::<DynVal, _>((crate::transport::Eio(&mut rd), &mut scratch[..])).map(|(v, _)| v.0)
                                    } else {
                                        postcard::from_io::<DynVal, _>((&mut rd, &mut scratch[..])).map(|(v, _)| v.0)
                                    }
                                })
                            });
                            let res = match r {
                                Ok(Ok(v)) => json!({"ok":1,"value":v.to_json(),"used":rd.pos}),
                                Ok(Err(e)) => json!({"ok":0,"err":errname(&e)}),
                                Err(p) => json!({"ok":0,"err":"panic","at":p}),
                            };
                            out.ev(json!({"op":"rt","shape":s.to_json(),"value":v.to_json(),"enc":ENC_ENTRIES[ee],"dec": if eio {"from_eio"} else {"from_io"},
                                          "tail":jb(&[7]),"via_owned":0,"bytes":jb(&b),"res":res,"scratch":need}));
                        }
                        // truncations of the fixed-width field must be reported as unexpected end
                        for cut in 0..b.len() {
                            let mut ev = json!({"op":"dec","shape":s.to_json(),"input":jb(&b[..cut]),"dec":DEC_ENTRIES[de],"side":1});
                            let mut extra = json!({});
                            ev["res"] = decode(de, &s, &b[..cut], 1, &mut extra);
                            ev["leaves"] = extra["leaves"].take();
                            ev["transient"] = extra["transient"].take();
                            out.ev(ev);
                        }
                    }
                    Err(e) => {
                        ev["enc_err"] = json!(e);
                        out.ev(ev);
                    }
                }
            }
        }
    }
    // (3) a derived struct using #[serde(with = ...)] for all eight types and both orders
    let s = fixall_shape();
    for _ in 0..a.num("nstruct", 200) {
        case += 1;
        if case % shards != shard {
            continue;
        }
        let mut g = |w: u32| vcommon::gen::bits(&mut r, w);
        let x = FixAll {
            lead: g(8) as u8,
            a: g(16) as u16, b: g(16) as u16, c: g(16) as u16 as i16, d: g(16) as u16 as i16,
            e: g(32) as u32, f: g(32) as u32, g: g(32) as u32 as i32, h: g(32) as u32 as i32,
            i: g(64) as u64, j: g(64) as u64, k: g(64) as u64 as i64, l: g(64) as u64 as i64,
            m: g(128), n: g(128), o: g(128) as i128, p: g(128) as i128,
            trail: g(16) as u16,
        };
        let v = fixall_val(&x);
        let mut ev = json!({"op":"rt","shape":s.to_json(),"value":v.to_json(),"enc":"to_allocvec","dec":"take_from_bytes","tail":jb(&[]),"via_owned":0,"concrete":"FixAll"});
        match catch(|| postcard::to_allocvec(&x)) {
            Ok(Ok(b)) => {
                ev["bytes"] = jb(&b);
                ev["res"] = match catch(|| postcard::take_from_bytes::<FixAll>(&b)) {
                    Ok(Ok((y, rem))) => json!({"ok":1,"value":fixall_val(&y).to_json(),"used":b.len()-rem.len()}),
                    Ok(Err(e)) => json!({"ok":0,"err":errname(&e)}),
                    Err(p) => json!({"ok":0,"err":"panic","at":p}),
                };
            }
            Ok(Err(e)) => ev["enc_err"] = json!(errname(&e)),
            Err(p) => ev["enc_err"] = json!(format!("panic:{p}")),
        }
        out.ev(ev);
    }
    out.flush();
    eprintln!("fix: {} events", out.n);
}
