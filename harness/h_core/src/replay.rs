//! Re-execute recorded events on the current tree (for `./check <id> --replay <file>` and known-finding witnesses).
use crate::acc;
use crate::common::*;
use crate::transport::{Eio, Io};
use crate::wire::{decode, encode, DEC_ENTRIES, ENC_ENTRIES};
use crate::Args;
use serde_json::{json, Value as J};
use vcommon::obs::catch;
use vcommon::val::*;

fn bytes(j: &J) -> Vec<u8> {
    j.as_array().map(|a| a.iter().map(|x| x.as_u64().unwrap_or(0) as u8).collect()).unwrap_or_default()
}
pub fn run(a: &Args) {
    let inp = std::fs::read_to_string(a.get("in").expect("--in")).expect("read");
    let mut out = Out::new(&a.str("out", "/dev/stdout"));
    for line in inp.lines().filter(|l| !l.trim().is_empty()) {
        let e: J = serde_json::from_str(line).expect("json");
        let op = e["op"].as_str().unwrap_or("?").to_string();
        let mut ev = e.clone();
        match op.as_str() {
            "rt" => {
                let s = Shape::from_json(&e["shape"]);
                let v = Val::from_json(&s, &e["value"]);
                let ee = ENC_ENTRIES.iter().position(|x| Some(*x) == e["enc"].as_str()).unwrap_or(2);
                let de = DEC_ENTRIES.iter().position(|x| Some(*x) == e["dec"].as_str()).unwrap_or(0);
                ev.as_object_mut().unwrap().remove("bytes");
                ev.as_object_mut().unwrap().remove("enc_err");
                match encode(ee, &s, &v) {
                    Ok(b) => {
                        ev["bytes"] = jb(&b);
                        let mut input = b.clone();
                        input.extend(bytes(&e["tail"]));
                        VIA_OWNED.with(|o| o.set(e["via_owned"] == 1));
                        let mut extra = json!({});
                        ev["res"] = decode(de, &s, &input, 0, &mut extra);
                        VIA_OWNED.with(|o| o.set(false));
                    }
                    Err(x) => ev["enc_err"] = json!(x),
                }
            }
            "dec" => {
                let s = Shape::from_json(&e["shape"]);
                let de = DEC_ENTRIES.iter().position(|x| Some(*x) == e["dec"].as_str()).unwrap_or(0);
                let mut extra = json!({});
                ev["res"] = decode(de, &s, &bytes(&e["input"]), e["side"].as_u64().unwrap_or(0) as u8, &mut extra);
                ev["leaves"] = extra["leaves"].take();
                ev["transient"] = extra["transient"].take();
                ev["alloc_peak"] = extra["alloc_peak"].take();
            }
            "feed" => {
                let n = e["n"].as_u64().unwrap() as usize;
                let s = Shape::from_json(&e["target"]);
                let mut a = acc::make(n).expect("capacity instantiated");
                let pre = bytes(&e["pre"]);
                if !pre.is_empty() {
                    a.feed(&s, &pre, false);
                }
                let mut r = a.feed(&s, &bytes(&e["chunk"]), e["mode"] == "feed_ref");
                r["ghost"] = json!(0);
                r["regime"] = json!(0);
                ev = r;
            }
            "io_ser" => {
                let s = Shape::from_json(&e["shape"]);
                let v = Val::from_json(&s, &e["value"]);
                let sched: Vec<usize> = e["sched"].as_array().unwrap().iter().map(|x| x.as_u64().unwrap() as usize).collect();
                let fail = e["fail_at"].as_i64().filter(|x| *x >= 0).map(|x| x as usize);
                let mut w = Io::writer(sched, fail);
                w.zero_on_full = e["zero"] == 1;
                w.flush_fail = e["flush_fail"] == 1;
                let sv = SV(&s, &v);
                let r = catch(|| if e["entry"] == "eio" { postcard::to_eio(&sv, Eio(&mut w)).map(|_| ()) } else { postcard::to_io(&sv, &mut w).map(|_| ()) });
                ev["res"] = match r {
                    Ok(Ok(())) => json!({"ok":1}),
                    Ok(Err(x)) => json!({"ok":0,"err":errname(&x)}),
                    Err(p) => json!({"ok":0,"err":"panic","at":p}),
                };
                ev["written"] = jb(&w.data);
                ev["flushed"] = json!(w.flushed);
                ev["log"] = json!(w.log);
            }
            _ => {
                eprintln!("op {op} is not individually re-executable; the recorded event is re-validated as it is");
            }
        }
        out.ev(ev);
    }
    out.flush();
}
