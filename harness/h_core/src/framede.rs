//! Decode side of the framing flavours: COBS (C06 frame sequences, C07 arbitrary bytes) and CRC (C10).
use crate::common::*;
use crate::ser::{algs, Alg, NamedAlg};
use crate::Args;
use rand::{rngs::StdRng, Rng, SeedableRng};
use serde_json::{json, Value as J};
use vcommon::gen;
use vcommon::obs::{catch, Guarded};
use vcommon::val::*;

fn cobs_targets() -> Vec<Shape> {
    vec![
        Shape::U8,
        Shape::Tuple(vec![Shape::U8, Shape::U8]),
        Shape::Bytes,
        Shape::Str,
        Shape::Seq(Box::new(Shape::Int(IntK::U16))),
        Shape::Unit,
        Shape::Struct(vec![("a".into(), Shape::Int(IntK::U32)), ("b".into(), Shape::Bool), ("c".into(), Shape::Str)]),
    ]
}

/// one take_from_bytes_cobs / from_bytes_cobs call on a guarded copy of `input`
fn cobs_call(target: &Shape, input: &[u8], take: bool, side: u8, fam: &str) -> (J, usize) {
    let mut g = Guarded::from(input, side == 1);
    let n = input.len();
    let base = g.as_ref().as_ptr();
    let r = catch(|| {
        with_shape(target, || {
            if take {
                postcard::take_from_bytes_cobs::<DynVal>(g.as_mut()).map(|(v, rem)| {
                    let off = rem.as_ptr() as usize - base as usize;
                    (v.0, off as i64, rem.len() as i64)
                })
            } else {
                postcard::from_bytes_cobs::<DynVal>(g.as_mut()).map(|v| (v.0, -1, -1))
            }
        })
    });
    let mut next = n;
    let res = match r {
        Ok(Ok((v, off, len))) => {
            if off >= 0 {
                next = off as usize;
            }
            json!({"ok":1,"value":v.to_json(),"rem_off":off,"rem_len":len})
        }
        Ok(Err(e)) => json!({"ok":0,"err":errname(&e)}),
        Err(p) => json!({"ok":0,"err":"panic","at":p}),
    };
    let ev = json!({"op": if take {"cobs_take"} else {"cobs_from"}, "target": target.to_json(), "buf": jb(input), "res": res,
                    "after": jb(g.as_ref()), "leaves": leaves_json(base, n), "fam": fam, "side": side});
    (ev, next)
}
fn cobs_frame_of(shape: &Shape, v: &Val) -> Vec<u8> {
    // frames for building inputs come from the allocvec COBS encoder; C06's encoder-side check judges those bytes separately
    postcard::to_allocvec_cobs(&SV(shape, v)).expect("cobs encode")
}

pub fn run_cobs(a: &Args) {
    let seed = a.num("seed", 1);
    let shard = a.num("shard", 0);
    let shards = a.num("shards", 1);
    let n = a.num("n", 100);
    let exh = a.num("exh", 5) as u32;
    let mut r = StdRng::seed_from_u64(seed ^ 0xc0b5 ^ (shard << 20));
    let mut out = Out::new(&a.str("out", "/dev/stdout"));
    let marker = a.get("marker").map(|s| s.to_string());
    let ts = cobs_targets();
    // (a) frame sequences, consumed frame by frame (C06)
    for i in 0..n {
        vcommon::obs::mark_case(&marker, &format!("cobs-seq:{seed}:{shard}:{i}"));
        let longseq = i % 4 == 3;
        let t = if longseq { &ts[2] } else { &ts[r.gen_range(0..ts.len())] };
        let k = r.gen_range(1..=6);
        let mut buf = vec![];
        for _ in 0..k {
            let v = if longseq && r.gen_range(0..2) == 0 {
                // more than 254 bytes of payload, so the frame carries extra code bytes (and shrinks more in place)
                Val::Bytes((0..[251usize, 252, 253, 254, 255, 300, 508, 509, 763][r.gen_range(0..9)]).map(|_| if r.gen_range(0..60) == 0 { 0 } else { r.gen_range(1..=255) }).collect())
            } else if r.gen_range(0..8) == 0 && *t == Shape::Bytes {
                // a frame around the 254 boundary
                Val::Bytes((0..[251usize, 252, 253, 254, 255, 300, 508][r.gen_range(0..7)]).map(|_| if r.gen_range(0..40) == 0 { 0 } else { r.gen_range(1..=255) }).collect())
            } else {
                gen::gval(&mut r, t, false)
            };
            buf.extend(cobs_frame_of(t, &v));
        }
        if r.gen_range(0..3) == 0 {
            buf.pop(); // last sentinel absent
        }
        let mut cur = buf.clone();
        let mut guard = 0;
        while !cur.is_empty() && guard < 10 {
            guard += 1;
            let (ev, next) = cobs_call(t, &cur, true, (i % 2) as u8, "seq");
            let ok = ev["res"]["ok"] == 1;
            out.ev(ev);
            if !ok {
                break;
            }
            // the next call sees exactly the remainder the call reported (contents after in-place decoding
            // of the consumed frame do not matter: the remainder region is untouched, which the spec checks)
            cur = cur[next.min(cur.len())..].to_vec();
        }
    }
    // (b) all byte strings up to `exh` over a code-relevant alphabet (C07), sharded
    let alpha = [0u8, 1, 2, 3, 0xFF];
    let mut idx = 0u64;
    for len in 0..=exh {
        let total = (alpha.len() as u64).pow(len);
        for code in 0..total {
            idx += 1;
            if idx % shards != shard {
                continue;
            }
            let mut c = code;
            let s: Vec<u8> = (0..len).map(|_| { let b = alpha[(c % 5) as usize]; c /= 5; b }).collect();
            let t = &ts[(idx / shards) as usize % ts.len()];
            let take = (idx / shards) % 2 == 0;
            let (ev, _) = cobs_call(t, &s, take, (idx % 2) as u8, "exh");
            out.ev(ev);
        }
    }
    // (c) valid frames with every single-byte corruption class at every position, every truncation, random bytes
    for i in 0..n {
        vcommon::obs::mark_case(&marker, &format!("cobs-mut:{seed}:{shard}:{i}"));
        let t = &ts[r.gen_range(0..ts.len())];
        let v = gen::gval(&mut r, t, i % 7 == 0);
        let mut f = cobs_frame_of(t, &v);
        if r.gen() {
            f.extend(cobs_frame_of(t, &gen::gval(&mut r, t, false)));
        }
        let mut inputs = vec![];
        if f.len() <= 40 {
            for pos in 0..f.len() {
                for c in 0..5 {
                    let mut m = f.clone();
                    m[pos] = match c { 0 => 0, 1 => 1, 2 => m[pos].wrapping_add(1), 3 => m[pos].wrapping_sub(1), _ => 0xFF };
                    inputs.push(m);
                }
                inputs.push(f[..pos].to_vec());
            }
        } else {
            for _ in 0..12 {
                let mut m = f.clone();
                let pos = r.gen_range(0..m.len());
                m[pos] = [0, 1, 0xFF, 0xFE, m[pos].wrapping_add(1)][r.gen_range(0..5)];
                inputs.push(m);
                inputs.push(f[..r.gen_range(0..f.len())].to_vec());
            }
        }
        inputs.push((0..r.gen_range(0..20)).map(|_| if r.gen_range(0..5) == 0 { 0 } else { r.gen() }).collect());
        for (j, inp) in inputs.iter().enumerate() {
            let (ev, _) = cobs_call(t, inp, j % 2 == 0, (j % 2) as u8, "mut");
            out.ev(ev);
        }
    }
    out.flush();
    eprintln!("cobs-de: {} events", out.n);
}

// ------------------------------------------------------------------------------------------ CRC
/// CRC-checked decoding from a byte reader: CrcModifier over the std::io reader flavour (pieces of 1..3 bytes)
fn crc_call_reader(alg: &NamedAlg, target: &Shape, input: &[u8]) -> J {
    use postcard::de_flavors::crc::CrcModifier;
    use postcard::de_flavors::io::io::IOReader;
    use serde::de::DeserializeSeed;
    let mut scratch = vec![0u8; input.len() + 32];
    let mut rd = crate::transport::Io::reader(input, vec![1, 3, 2], None);
    let r = catch(|| -> postcard::Result<Val> {
        crate::with_digest!(alg, |d| {
            let fl = CrcModifier::new(IOReader::new(&mut rd, &mut scratch[..]), d);
            let mut de = postcard::Deserializer::from_flavor(fl);
            let v = Seed(target).deserialize(&mut de)?;
            let _ = de.finalize()?;
            Ok(v)
        })
    });
    match r {
        Ok(Ok(v)) => json!([1, v.to_json(), (input.len() - rd.pos) as i64]),
        Ok(Err(e)) => json!([0, errname(&e)]),
        Err(p) => json!([0, "panic", p]),
    }
}
pub(crate) fn crc_call(alg: &NamedAlg, target: &Shape, input: &[u8], take: bool) -> J {
    use postcard::de_flavors::crc as dc;
    let g = Guarded::from(input, true);
    let buf: &[u8] = unsafe { std::slice::from_raw_parts(g.as_ref().as_ptr(), input.len()) };
    let n = buf.len();
    macro_rules! leak {
        ($t:ty, $a:expr) => {{
            $crate::leak_crc!($t, $a).digest()
        }};
    }
    let r = catch(|| {
        with_shape(target, || -> postcard::Result<(Val, i64)> {
            let rem = |v: (DynVal, &[u8])| (v.0 .0, v.1.len() as i64);
            let one = |v: DynVal| (v.0, -1i64);
            Ok(match (&alg.1, take) {
                (Alg::A8(a), true) => rem(dc::take_from_bytes_u8::<DynVal>(buf, leak!(u8, a))?),
                (Alg::A8(a), false) => one(dc::from_bytes_u8::<DynVal>(buf, leak!(u8, a))?),
                (Alg::A16(a), true) => rem(dc::take_from_bytes_u16::<DynVal>(buf, leak!(u16, a))?),
                (Alg::A16(a), false) => one(dc::from_bytes_u16::<DynVal>(buf, leak!(u16, a))?),
                (Alg::A32(a), true) => rem(postcard::take_from_bytes_crc32::<DynVal>(buf, leak!(u32, a))?),
                (Alg::A32(a), false) => one(postcard::from_bytes_crc32::<DynVal>(buf, leak!(u32, a))?),
                (Alg::A64(a), true) => rem(dc::take_from_bytes_u64::<DynVal>(buf, leak!(u64, a))?),
                (Alg::A64(a), false) => one(dc::from_bytes_u64::<DynVal>(buf, leak!(u64, a))?),
                (Alg::A128(a), true) => rem(dc::take_from_bytes_u128::<DynVal>(buf, leak!(u128, a))?),
                (Alg::A128(a), false) => one(dc::from_bytes_u128::<DynVal>(buf, leak!(u128, a))?),
            })
        })
    });
    let _ = n;
    match r {
        Ok(Ok((v, rl))) => json!([1, v.to_json(), rl]),
        Ok(Err(e)) => json!([0, errname(&e)]),
        Err(p) => json!([0, "panic", p]),
    }
}
fn crc_frame(alg: &NamedAlg, s: &Shape, v: &Val) -> Vec<u8> {
    use postcard::ser_flavors::crc as sc;
    macro_rules! leak {
        ($t:ty, $a:expr) => {{
            $crate::leak_crc!($t, $a).digest()
        }};
    }
    let sv = SV(s, v);
    match &alg.1 {
        Alg::A8(a) => sc::to_allocvec_u8(&sv, leak!(u8, a)),
        Alg::A16(a) => sc::to_allocvec_u16(&sv, leak!(u16, a)),
        Alg::A32(a) => sc::to_allocvec_u32(&sv, leak!(u32, a)),
        Alg::A64(a) => sc::to_allocvec_u64(&sv, leak!(u64, a)),
        Alg::A128(a) => sc::to_allocvec_u128(&sv, leak!(u128, a)),
    }
    .expect("crc encode")
}
fn flip(frame: &[u8], bitoff: usize, pat: u128, len: usize) -> Vec<u8> {
    // transmission order: byte 0 first, bit 0 of each byte first (any fixed order serves: every contiguous window is covered)
    let mut m = frame.to_vec();
    for k in 0..len {
        if (pat >> k) & 1 == 1 {
            let b = bitoff + k;
            m[b / 8] ^= 1 << (b % 8);
        }
    }
    m
}
pub fn run_crc(a: &Args) {
    let seed = a.num("seed", 1);
    let n = a.num("n", 30);
    let deep = a.num("deep", 0) == 1;
    let mut r = StdRng::seed_from_u64(seed ^ 0xc4c);
    let mut out = Out::new(&a.str("out", "/dev/stdout"));
    let marker = a.get("marker").map(|s| s.to_string());
    let algs = algs();
    let targets = [
        Shape::Int(IntK::U16),
        Shape::Str,
        Shape::Bytes,
        Shape::Tuple(vec![Shape::U8, Shape::Bool, Shape::Int(IntK::I32)]),
        Shape::Seq(Box::new(Shape::U8)),
        Shape::Opt(Box::new(Shape::Int(IntK::U64))),
        Shape::Struct(vec![("a".into(), Shape::F32), ("b".into(), Shape::Str)]),
    ];
    let _ = &targets;
    for i in 0..n {
        vcommon::obs::mark_case(&marker, &format!("crc-de:{seed}:{i}"));
        let mut alg = &algs[(i as usize + seed as usize) % algs.len()];
        if deep {
            // exhaustive burst enumeration: checksums of at most 32 bits (the frame stays short enough to enumerate)
            let narrow: Vec<&NamedAlg> = algs.iter().filter(|a| a.to_json()["s"].as_u64().unwrap() <= 4).collect();
            alg = narrow[(i as usize + seed as usize) % narrow.len()];
        }
        // every third frame has a chosen pattern of single-byte reads and block reads (runs around powers of two)
        let (ts_, vs_);
        let (t, v) = if i % 3 == 2 {
            let (s_, v_) = loop {
                // the specification's bit-serial CRC costs time linear in the frame length: keep these frames short
                let (s_, v_) = crate::ser::emit_structured(&mut r);
                if postcard::experimental::serialized_size(&SV(&s_, &v_)).map(|n| n <= 56).unwrap_or(false) {
                    break (s_, v_);
                }
            };
            ts_ = s_;
            vs_ = v_;
            (&ts_, vs_)
        } else {
            let t = &targets[r.gen_range(0..targets.len())];
            (t, gen::gval(&mut r, t, false))
        };
        let mut frame = crc_frame(alg, t, &v);
        let (mut t, mut v) = (t.clone(), v);
        // deep runs enumerate every burst pattern at every offset: short frames only
        let cks = alg.to_json()["s"].as_u64().unwrap() as usize;
        let _ = cks;
        while deep && frame.len() > 10 {            // at most 80 bits x 511 burst patterns
            t = targets[r.gen_range(0..targets.len())].clone();
            v = gen::gval(&mut r, &t, false);
            frame = crc_frame(alg, &t, &v);
        }
        let (t, v) = (&t, v);
        let aj = alg.to_json();
        let width = aj["width"].as_u64().unwrap() as usize;
        let mut cases: Vec<(String, Vec<u8>)> = vec![];
        // the intact frame with and without trailing bytes
        cases.push(("intact".into(), frame.clone()));
        let mut with_tail = frame.clone();
        with_tail.extend([0x55, 0x00, 0xFF]);
        cases.push(("tail".into(), with_tail));
        let small = frame.len() <= 24;
        // every truncation (sampled for long frames: the specification's CRC costs time linear in the length)
        for c in 0..frame.len() {
            if small || r.gen_range(0..frame.len()) < 12 || c + 20 > frame.len() {
                cases.push(("trunc".into(), frame[..c].to_vec()));
            }
        }
        let nbits = frame.len() * 8;
        // every single-bit flip (sampled for long frames)
        for b in 0..nbits {
            if small || r.gen_range(0..nbits) < 48 {
                cases.push(("bit".into(), flip(&frame, b, 1, 1)));
            }
        }
        // bursts: every pattern for lengths up to 8 (up to 10 bits in deep runs), sampled beyond
        let exh_len = if deep { width.min(10) } else { width.min(8) };
        if frame.len() <= 10 || deep {
            for len in 2..=exh_len {
                for mid in 0..(1u128 << (len - 2)) {
                    let pat = 1 | (mid << 1) | (1 << (len - 1));
                    for b in 0..=(nbits - len.min(nbits)) {
                        if len <= nbits && (deep || (b + mid as usize) % 3 == 0 || len <= 4) {
                            cases.push(("burst".into(), flip(&frame, b, pat, len)));
                        }
                    }
                }
            }
        }
        for _ in 0..(if small { 40 } else { 12 }) {
            let len = r.gen_range(2..=width.min(nbits).max(2)).min(nbits);
            let pat = 1 | ((r.gen::<u128>() & ((1u128 << (len - 1)) - 1)) & !1) | (1u128 << (len - 1));
            let b = r.gen_range(0..=(nbits - len));
            cases.push(("burst".into(), flip(&frame, b, pat, len)));
        }
        // damage confined to the checksum, random multi-byte damage
        let s = aj["s"].as_u64().unwrap() as usize;
        for _ in 0..(if small { 16 } else { 5 }) {
            let mut m = frame.clone();
            let k = m.len();
            for _ in 0..r.gen_range(1..=s) {
                let p = k - 1 - r.gen_range(0..s);
                m[p] ^= r.gen_range(1..=255u8);
            }
            cases.push(("cksum".into(), m));
            let mut m = frame.clone();
            for _ in 0..r.gen_range(1..4) {
                let p = r.gen_range(0..m.len());
                m[p] = r.gen();
            }
            cases.push(("random".into(), m));
        }
        // entry: take_from_bytes_uN (1), from_bytes_uN (0), or the CRC modifier over a byte reader (2; reports the unread bytes like take)
        let outs: Vec<J> = cases
            .iter()
            .enumerate()
            .map(|(j, (k, inp))| match j % 5 {
                4 => json!([k, jb(inp), crc_call_reader(alg, t, inp), 2]),
                m => json!([k, jb(inp), crc_call(alg, t, inp, m % 2 == 0), (m % 2 == 0) as u8]),
            })
            .collect();
        out.ev(json!({"op":"crc_deb","alg":aj,"target":t.to_json(),"value":v.to_json(),"frame":jb(&frame),"cases":outs}));
    }
    out.flush();
    eprintln!("crc-de: {} batch events", out.n);
}
