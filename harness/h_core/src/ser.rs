//! C05 / C06 (encoder side) / C10 (encoder side) / C20: serialisation through every stack of flavours
//! into every storage at every capacity. One batch event per (value, stack, storage): the outcomes for
//! all capacities, so that the specification computes the functional output once.
use crate::common::*;
use crate::Args;
use postcard::ser_flavors::{self as sf, Flavor};
use rand::{rngs::StdRng, Rng, SeedableRng};
use serde_json::{json, Value as J};
use std::cell::RefCell;
use std::rc::Rc;
use vcommon::gen;
use vcommon::obs::{catch, Guarded};
use vcommon::val::*;

// ------------------------------------------------------------------ CRC catalogue subset
pub enum Alg {
    A8(&'static crc::Algorithm<u8>),
    A16(&'static crc::Algorithm<u16>),
    A32(&'static crc::Algorithm<u32>),
    A64(&'static crc::Algorithm<u64>),
    A128(&'static crc::Algorithm<u128>),
}
pub struct NamedAlg(pub &'static str, pub Alg);
pub fn algs() -> Vec<NamedAlg> {
    use crc::*;
    vec![
        NamedAlg("CRC_8_SMBUS", Alg::A8(&CRC_8_SMBUS)),
        NamedAlg("CRC_8_MAXIM_DOW", Alg::A8(&CRC_8_MAXIM_DOW)),
        NamedAlg("CRC_5_USB", Alg::A8(&CRC_5_USB)),
        NamedAlg("CRC_16_XMODEM", Alg::A16(&CRC_16_XMODEM)),
        NamedAlg("CRC_16_IBM_SDLC", Alg::A16(&CRC_16_IBM_SDLC)),
        NamedAlg("CRC_16_MODBUS", Alg::A16(&CRC_16_MODBUS)),
        NamedAlg("CRC_32_ISCSI", Alg::A32(&CRC_32_ISCSI)),
        NamedAlg("CRC_32_BZIP2", Alg::A32(&CRC_32_BZIP2)),
        NamedAlg("CRC_24_OPENPGP", Alg::A32(&CRC_24_OPENPGP)),
        NamedAlg("CRC_64_ECMA_182", Alg::A64(&CRC_64_ECMA_182)),
        NamedAlg("CRC_64_XZ", Alg::A64(&CRC_64_XZ)),
        NamedAlg("CRC_40_GSM", Alg::A64(&CRC_40_GSM)),
        NamedAlg("CRC_82_DARC", Alg::A128(&CRC_82_DARC)),
    ]
}
impl NamedAlg {
    /// parameters as the specification needs them, read from the crate's own Algorithm struct
    pub fn to_json(&self) -> J {
        macro_rules! p {
            ($a:expr, $s:expr) => {
                json!({"name": self.0, "width": $a.width, "poly": jb(&$a.poly.to_le_bytes()), "init": jb(&$a.init.to_le_bytes()),
                       "refin": $a.refin as u8, "refout": $a.refout as u8, "xorout": jb(&$a.xorout.to_le_bytes()),
                       "check": jb(&$a.check.to_le_bytes()), "s": $s})
            };
        }
        match &self.1 {
            Alg::A8(a) => p!(a, 1),
            Alg::A16(a) => p!(a, 2),
            Alg::A32(a) => p!(a, 4),
            Alg::A64(a) => p!(a, 8),
            Alg::A128(a) => p!(a, 16),
        }
    }
}
#[macro_export]
macro_rules! leak_crc {
    ($t:ty, $a:expr) => {{
        // one leaked table per algorithm (keyed by the address of the catalogue constant), not one per call
        thread_local! { static POOL: std::cell::RefCell<std::collections::HashMap<usize, &'static crc::Crc<$t>>> = Default::default(); }
        let alg: &'static crc::Algorithm<$t> = *$a;
        let c: &'static crc::Crc<$t> = POOL.with(|p| *p.borrow_mut().entry(alg as *const crc::Algorithm<$t> as usize).or_insert_with(|| Box::leak(Box::new(crc::Crc::<$t>::new(alg)))));
        c
    }};
}
/// run `$body` with `$d` bound to a fresh digest of the right width
#[macro_export]
macro_rules! with_digest {
    ($alg:expr, |$d:ident| $body:expr) => {
        match &$alg.1 {
            $crate::ser::Alg::A8(a) => { let c = $crate::leak_crc!(u8, a); let $d = c.digest(); $body }
            $crate::ser::Alg::A16(a) => { let c = $crate::leak_crc!(u16, a); let $d = c.digest(); $body }
            $crate::ser::Alg::A32(a) => { let c = $crate::leak_crc!(u32, a); let $d = c.digest(); $body }
            $crate::ser::Alg::A64(a) => { let c = $crate::leak_crc!(u64, a); let $d = c.digest(); $body }
            $crate::ser::Alg::A128(a) => { let c = $crate::leak_crc!(u128, a); let $d = c.digest(); $body }
        }
    };
}

// ------------------------------------------------------------------ running one serialisation
#[derive(Clone, Copy, PartialEq, Debug)]
pub enum Stack {
    Plain,
    Cobs,
    Crc,
    CrcCobs,
}
fn res(r: Result<postcard::Result<Vec<u8>>, String>) -> J {
    match r {
        Ok(Ok(b)) => json!({"ok":1,"bytes":jb(&b)}),
        Ok(Err(e)) => json!({"ok":0,"err":errname(&e)}),
        Err(p) => json!({"ok":0,"err":"panic","at":p}),
    }
}
const CANARY: u8 = 0xA5;

/// slice storage of exactly `cap` bytes flush against a guard page (side alternates)
fn run_slice(sv: &SV, stack: Stack, alg: Option<&NamedAlg>, cap: usize, end_flush: bool) -> J {
    let mut g = Guarded::new(cap, end_flush);
    g.as_mut().fill(CANARY);
    let base = g.as_ref().as_ptr() as usize;
    let r = catch(|| -> postcard::Result<(usize, usize)> {
        let buf = g.as_mut();
        let out: &mut [u8] = match stack {
            Stack::Plain => postcard::to_slice(sv, buf)?,
            Stack::Cobs => postcard::to_slice_cobs(sv, buf)?,
            Stack::Crc => {
                let a = alg.unwrap();
                match &a.1 {
                    Alg::A8(x) => sf::crc::to_slice_u8(sv, buf, leak_crc!(u8, x).digest())?,
                    Alg::A16(x) => sf::crc::to_slice_u16(sv, buf, leak_crc!(u16, x).digest())?,
                    // the crc32 convenience wrapper is part of the public API
                    Alg::A32(x) => postcard::to_slice_crc32(sv, buf, leak_crc!(u32, x).digest())?,
                    Alg::A64(x) => sf::crc::to_slice_u64(sv, buf, leak_crc!(u64, x).digest())?,
                    Alg::A128(x) => sf::crc::to_slice_u128(sv, buf, leak_crc!(u128, x).digest())?,
                }
            }
            Stack::CrcCobs => {
                let a = alg.unwrap();
                with_digest!(a, |d| postcard::serialize_with_flavor(sv, sf::crc::CrcModifier::new(sf::Cobs::try_new(sf::Slice::new(buf))?, d))?)
            }
        };
        Ok((out.as_ptr() as usize, out.len()))
    });
    let after = g.as_ref().to_vec();
    match r {
        Ok(Ok((p, n))) => {
            let n2 = n.min(cap);
            json!({"ok":1,"bytes":jb(&after[..n2]),"len":n,"front":(p == base) as u8,"tail_ok":after[n2..].iter().all(|b| *b == CANARY) as u8})
        }
        Ok(Err(e)) => json!({"ok":0,"err":errname(&e)}),
        Err(p) => json!({"ok":0,"err":"panic","at":p}),
    }
}
fn run_hvec<const B: usize>(sv: &SV, stack: Stack, alg: Option<&NamedAlg>) -> J {
    res(catch(|| -> postcard::Result<Vec<u8>> {
        Ok(match stack {
            Stack::Plain => postcard::to_vec::<_, B>(sv)?.to_vec(),
            Stack::Cobs => postcard::to_vec_cobs::<_, B>(sv)?.to_vec(),
            Stack::Crc => {
                let a = alg.unwrap();
                match &a.1 {
                    Alg::A8(x) => sf::crc::to_vec_u8::<_, B>(sv, leak_crc!(u8, x).digest())?.to_vec(),
                    Alg::A16(x) => sf::crc::to_vec_u16::<_, B>(sv, leak_crc!(u16, x).digest())?.to_vec(),
                    Alg::A32(x) => postcard::to_vec_crc32::<_, B>(sv, leak_crc!(u32, x).digest())?.to_vec(),
                    Alg::A64(x) => sf::crc::to_vec_u64::<_, B>(sv, leak_crc!(u64, x).digest())?.to_vec(),
                    Alg::A128(x) => sf::crc::to_vec_u128::<_, B>(sv, leak_crc!(u128, x).digest())?.to_vec(),
                }
            }
            Stack::CrcCobs => {
                let a = alg.unwrap();
                with_digest!(a, |d| postcard::serialize_with_flavor(sv, sf::crc::CrcModifier::new(sf::Cobs::try_new(sf::HVec::<B>::default())?, d))?.to_vec())
            }
        })
    }))
}
pub const HCAPS: [usize; 36] = [0, 1, 2, 3, 4, 5, 6, 7, 8, 9, 10, 11, 12, 13, 14, 15, 16, 17, 18, 19, 20, 21, 22, 23, 24, 25, 26, 27, 28, 29, 30, 31, 32, 64, 300, 1024];
fn hvec_at(cap: usize, sv: &SV, stack: Stack, alg: Option<&NamedAlg>) -> Option<J> {
    macro_rules! d { ($($k:literal),*) => { match cap { $($k => Some(run_hvec::<$k>(sv, stack, alg)),)* _ => None } } }
    d!(0, 1, 2, 3, 4, 5, 6, 7, 8, 9, 10, 11, 12, 13, 14, 15, 16, 17, 18, 19, 20, 21, 22, 23, 24, 25, 26, 27, 28, 29, 30, 31, 32, 64, 300, 1024)
}
fn run_unbounded(sv: &SV, stack: Stack, alg: Option<&NamedAlg>, which: &str) -> J {
    res(catch(|| -> postcard::Result<Vec<u8>> {
        match (stack, which) {
            (Stack::Plain, "allocvec") => postcard::to_allocvec(sv),
            (Stack::Plain, "stdvec") => postcard::to_stdvec(sv),
            (Stack::Plain, _) => Ok(postcard::to_extend(sv, std::collections::VecDeque::<u8>::new())?.into_iter().collect()),
            (Stack::Cobs, "stdvec") => postcard::to_stdvec_cobs(sv),
            (Stack::Cobs, _) => postcard::to_allocvec_cobs(sv),
            (Stack::Crc, w) => {
                let a = alg.unwrap();
                match &a.1 {
                    Alg::A8(x) => sf::crc::to_allocvec_u8(sv, leak_crc!(u8, x).digest()),
                    Alg::A16(x) => sf::crc::to_allocvec_u16(sv, leak_crc!(u16, x).digest()),
                    Alg::A32(x) => {
                        if w == "stdvec" {
                            postcard::to_stdvec_crc32(sv, leak_crc!(u32, x).digest())
                        } else {
                            postcard::to_allocvec_crc32(sv, leak_crc!(u32, x).digest())
                        }
                    }
                    Alg::A64(x) => sf::crc::to_allocvec_u64(sv, leak_crc!(u64, x).digest()),
                    Alg::A128(x) => sf::crc::to_allocvec_u128(sv, leak_crc!(u128, x).digest()),
                }
            }
            (Stack::CrcCobs, _) => {
                let a = alg.unwrap();
                with_digest!(a, |d| postcard::serialize_with_flavor(sv, sf::crc::CrcModifier::new(sf::Cobs::try_new(sf::AllocVec::new())?, d)))
            }
        }
    }))
}

/// serialise into a byte writer that has room for `cap` bytes (kind 0: std::io, then fails; 1: std::io, then Ok(0); 2: embedded-io, then fails)
fn run_writer(sv: &SV, stack: Stack, alg: Option<&NamedAlg>, cap: usize, kind: usize) -> J {
    use crate::transport::{Eio, Io};
    let mut w = Io::writer(vec![], Some(cap));
    w.zero_on_full = kind == 1;
    w.quiet = true;
    let r = catch(|| -> postcard::Result<()> {
        match (stack, kind) {
            (Stack::Plain, 2) => postcard::serialize_with_flavor(sv, sf::eio::WriteFlavor::new(Eio(&mut w))).map(|_| ()),
            (Stack::Plain, _) => postcard::serialize_with_flavor(sv, sf::io::WriteFlavor::new(&mut w)).map(|_| ()),
            (_, 2) => with_digest!(alg.unwrap(), |d| postcard::serialize_with_flavor(sv, sf::crc::CrcModifier::new(sf::eio::WriteFlavor::new(Eio(&mut w)), d)).map(|_| ())),
            (_, _) => with_digest!(alg.unwrap(), |d| postcard::serialize_with_flavor(sv, sf::crc::CrcModifier::new(sf::io::WriteFlavor::new(&mut w), d)).map(|_| ())),
        }
    });
    match r {
        Ok(Ok(())) => json!({"ok":1,"bytes":jb(&w.data)}),
        Ok(Err(e)) => json!({"ok":0,"err":errname(&e),"written":jb(&w.data)}),
        Err(p) => json!({"ok":0,"err":"panic","at":p}),
    }
}

/// the inverse pipeline a receiver runs: COBS-decode the frame, then checksum-checked (or plain) decoding of the payload
fn undo(s: &Shape, stack: Stack, alg: Option<&NamedAlg>, bytes: &[u8]) -> J {
    let plain = |b: &[u8]| -> J {
        match catch(|| with_shape(s, || postcard::take_from_bytes::<DynVal>(b).map(|(v, rest)| (v.0, rest.len())))) {
            Ok(Ok((v, rest))) => json!({"ok":1,"value":v.to_json(),"rest":rest}),
            Ok(Err(e)) => json!({"ok":0,"err":errname(&e)}),
            Err(p) => json!({"ok":0,"err":"panic","at":p}),
        }
    };
    let crc = |b: &[u8]| -> J {
        let r = crate::framede::crc_call(alg.unwrap(), s, b, true);
        if r[0] == 1 { json!({"ok":1,"value":r[1],"rest":r[2]}) } else { json!({"ok":0,"err":r[1]}) }
    };
    match stack {
        Stack::Plain => plain(bytes),
        Stack::Crc => crc(bytes),
        Stack::Cobs => {
            let mut b = bytes.to_vec();
            match catch(move || with_shape(s, || postcard::from_bytes_cobs::<DynVal>(&mut b).map(|v| v.0))) {
                Ok(Ok(v)) => json!({"ok":1,"value":v.to_json(),"rest":0}),
                Ok(Err(e)) => json!({"ok":0,"err":errname(&e)}),
                Err(p) => json!({"ok":0,"err":"panic","at":p}),
            }
        }
        Stack::CrcCobs => {
            let mut b = bytes.to_vec();
            match catch(move || cobs::decode_in_place(&mut b).map(|n| { b.truncate(n); b })) {
                Ok(Ok(payload)) => crc(&payload),
                Ok(Err(_)) => json!({"ok":0,"err":"cobs"}),
                Err(p) => json!({"ok":0,"err":"panic","at":p}),
            }
        }
    }
}

fn stack_json(stack: Stack, alg: Option<&NamedAlg>) -> J {
    let crc = || json!({"l":"crc","alg":alg.unwrap().to_json(),"s":alg.unwrap().to_json()["s"]});
    match stack {
        Stack::Plain => json!([]),
        Stack::Cobs => json!([{"l":"cobs"}]),
        Stack::Crc => json!([crc()]),
        Stack::CrcCobs => json!([crc(), {"l":"cobs"}]),
    }
}

// ------------------------------------------------------------------ user flavours (C20)
#[derive(Clone)]
struct UserFlavor {
    log: Rc<RefCell<Vec<J>>>,
    bytes: Rc<RefCell<Vec<u8>>>,
    block: bool,
    /// refuse every write that would take the total beyond this many bytes (usize::MAX = never)
    room: usize,
    /// finalize reports an error
    fin_fail: bool,
}
impl UserFlavor {
    fn take(&self, n: usize) -> postcard::Result<()> {
        if self.bytes.borrow().len() + n > self.room {
            self.log.borrow_mut().push(json!(["x", n]));
            return Err(postcard::Error::SerializeBufferFull);
        }
        Ok(())
    }
    fn fin(&self) -> postcard::Result<()> {
        self.log.borrow_mut().push(json!(["f"]));
        if self.fin_fail {
            // any error of the user's choosing: serialize_with_flavor maps it
            return Err(postcard::Error::SerdeSerCustom);
        }
        Ok(())
    }
}
struct UserPush(UserFlavor);
struct UserBlock(UserFlavor);
impl Flavor for UserPush {
    type Output = ();
    fn try_push(&mut self, b: u8) -> postcard::Result<()> {
        self.0.take(1)?;
        self.0.log.borrow_mut().push(json!(["p", b]));
        self.0.bytes.borrow_mut().push(b);
        Ok(())
    }
    fn finalize(self) -> postcard::Result<()> {
        self.0.fin()
    }
}
impl Flavor for UserBlock {
    type Output = ();
    fn try_push(&mut self, b: u8) -> postcard::Result<()> {
        self.0.take(1)?;
        self.0.log.borrow_mut().push(json!(["p", b]));
        self.0.bytes.borrow_mut().push(b);
        Ok(())
    }
    fn try_extend(&mut self, d: &[u8]) -> postcard::Result<()> {
        self.0.take(d.len())?;
        self.0.log.borrow_mut().push(json!(["e", jb(d)]));
        self.0.bytes.borrow_mut().extend_from_slice(d);
        Ok(())
    }
    fn finalize(self) -> postcard::Result<()> {
        self.0.fin()
    }
}
fn user_flavor_event(s: &Shape, v: &Val, block: bool, alg: Option<&NamedAlg>, room: usize, fin_fail: bool) -> J {
    let uf = UserFlavor { log: Default::default(), bytes: Default::default(), block, room, fin_fail };
    let sv = SV(s, v);
    let r = catch(|| match (block, alg) {
        (false, None) => postcard::serialize_with_flavor(&sv, UserPush(uf.clone())),
        (true, None) => postcard::serialize_with_flavor(&sv, UserBlock(uf.clone())),
        (false, Some(a)) => with_digest!(a, |d| postcard::serialize_with_flavor(&sv, sf::crc::CrcModifier::new(UserPush(uf.clone()), d))),
        (true, Some(a)) => with_digest!(a, |d| postcard::serialize_with_flavor(&sv, sf::crc::CrcModifier::new(UserBlock(uf.clone()), d))),
    });
    let status = match r {
        Ok(Ok(())) => json!("ok"),
        Ok(Err(e)) => json!(errname(&e)),
        Err(p) => json!("panic"),
    };
    let calls = uf.log.borrow().clone();
    json!({"op":"userflavor","shape":s.to_json(),"value":v.to_json(),"block":block as u8,"room": if room == usize::MAX { -1 } else { room as i64 },"fin_fail":fin_fail as u8,
           "stack": stack_json(if alg.is_some() { Stack::Crc } else { Stack::Plain }, alg),
           "status":status,"calls":calls})
}

// ------------------------------------------------------------------ op-level recording storage (under COBS / CRC-in-COBS)
/// a bounded store that logs every call the modifier above it makes: push (with result), block write, and every
/// IndexMut access (the COBS flavour patches code bytes through it)
struct RecStore {
    cap: usize,
    buf: Vec<u8>,
    log: Rc<RefCell<Vec<J>>>,
}
impl Flavor for RecStore {
    type Output = Vec<u8>;
    fn try_push(&mut self, b: u8) -> postcard::Result<()> {
        if self.buf.len() >= self.cap {
            self.log.borrow_mut().push(json!(["push", b, 0]));
            return Err(postcard::Error::SerializeBufferFull);
        }
        self.buf.push(b);
        self.log.borrow_mut().push(json!(["push", b, 1]));
        Ok(())
    }
    fn try_extend(&mut self, d: &[u8]) -> postcard::Result<()> {
        if self.buf.len() + d.len() > self.cap {
            self.log.borrow_mut().push(json!(["extend", jb(d), 0]));
            return Err(postcard::Error::SerializeBufferFull);
        }
        self.buf.extend_from_slice(d);
        self.log.borrow_mut().push(json!(["extend", jb(d), 1]));
        Ok(())
    }
    fn finalize(self) -> postcard::Result<Vec<u8>> {
        self.log.borrow_mut().push(json!(["fin", jb(&self.buf)]));
        Ok(self.buf)
    }
}
impl core::ops::Index<usize> for RecStore {
    type Output = u8;
    fn index(&self, i: usize) -> &u8 {
        self.log.borrow_mut().push(json!(["read", i, self.buf.len()]));
        &self.buf[i]
    }
}
impl core::ops::IndexMut<usize> for RecStore {
    fn index_mut(&mut self, i: usize) -> &mut u8 {
        // the value stored through the returned reference shows in the final buffer; the index is the point
        self.log.borrow_mut().push(json!(["patch", i, self.buf.len()]));
        &mut self.buf[i]
    }
}
fn cobs_ops_event(s: &Shape, v: &Val, alg: Option<&NamedAlg>, cap: usize) -> J {
    let log: Rc<RefCell<Vec<J>>> = Default::default();
    let sv = SV(s, v);
    let r = catch(|| -> postcard::Result<Vec<u8>> {
        let store = RecStore { cap, buf: vec![], log: log.clone() };
        match alg {
            None => postcard::serialize_with_flavor(&sv, sf::Cobs::try_new(store)?),
            Some(a) => with_digest!(a, |d| postcard::serialize_with_flavor(&sv, sf::crc::CrcModifier::new(sf::Cobs::try_new(store)?, d))),
        }
    });
    let calls = log.borrow().clone();
    json!({"op":"cobs_ops","shape":s.to_json(),"value":v.to_json(),"stack":stack_json(if alg.is_some() { Stack::CrcCobs } else { Stack::Cobs }, alg),
           "cap":cap,"res":res(r),"calls":calls})
}

// ------------------------------------------------------------------ value population
/// values whose plain encodings have the run structures COBS cares about (lengths around multiples of 254)
fn cobs_structured(r: &mut StdRng) -> (Shape, Val) {
    let lens = [0usize, 1, 2, 252, 253, 254, 255, 256, 506, 507, 508, 509, 510, 761, 762, 763];
    let mut runs = vec![];
    for _ in 0..r.gen_range(1..4) {
        runs.push(lens[r.gen_range(0..lens.len())]);
    }
    let mut payload = vec![];
    for (i, l) in runs.iter().enumerate() {
        for _ in 0..*l {
            payload.push(r.gen_range(1..=255u8));
        }
        if i + 1 < runs.len() || r.gen() {
            payload.push(0);
        }
    }
    // a tuple of raw u8 elements: the plain encoding is exactly `payload` (no length prefix), written by single pushes;
    // or a byte string: length prefix + one block write
    if r.gen() {
        (Shape::Tuple(vec![Shape::U8; payload.len()]), Val::Seq(payload.into_iter().map(Val::U8).collect()))
    } else {
        (Shape::Bytes, Val::Bytes(payload))
    }
}

/// values whose serialisation is a chosen pattern of single-byte writes and block writes: runs of k pushes
/// (k around powers of two, where staging buffers would fill) separated by varint / float / string blocks
pub fn emit_structured(r: &mut StdRng) -> (Shape, Val) {
    let runs = [1usize, 2, 3, 7, 8, 9, 15, 16, 17, 18, 31, 32, 33, 40, 63, 64, 65];
    let mut ts = vec![];
    let mut vs = vec![];
    for _ in 0..r.gen_range(1..5) {
        let k = runs[r.gen_range(0..runs.len())];
        match r.gen_range(0..3) {
            0 => {
                for _ in 0..k {
                    ts.push(Shape::U8);
                    vs.push(Val::U8(r.gen()));
                }
            }
            1 => {
                // a sequence of k one-byte elements: length prefix (block) then k pushes
                let el = [Shape::U8, Shape::Bool, Shape::I8][r.gen_range(0..3)].clone();
                let v = Val::Seq((0..k).map(|_| gen::gval(r, &el, false)).collect());
                ts.push(Shape::Seq(Box::new(el)));
                vs.push(v);
            }
            _ => {
                for _ in 0..k {
                    ts.push(Shape::Opt(Box::new(Shape::Unit)));
                    vs.push(if r.gen() { Val::None } else { Val::Some(Box::new(Val::Unit)) });
                }
            }
        }
        // a block write in between: varint, float, or a string of k' bytes
        match r.gen_range(0..4) {
            0 => { ts.push(Shape::Int(IntK::U32)); vs.push(Val::int(IntK::U32, gen::bits(r, 32))); }
            1 => { ts.push(Shape::F64); vs.push(Val::F64(r.gen())); }
            2 => {
                let k2 = runs[r.gen_range(0..runs.len())];
                ts.push(Shape::Str);
                vs.push(Val::Str((0..k2).map(|_| b'a' + r.gen_range(0..26)).collect()));
            }
            _ => {}
        }
    }
    (Shape::Tuple(ts), Val::Seq(vs))
}

pub fn run(a: &Args) {
    let n = a.num("n", 100) as usize;
    let seed = a.num("seed", 1);
    let mut r = StdRng::seed_from_u64(seed ^ 0x5e7);
    let mut out = Out::new(&a.str("out", "/dev/stdout"));
    let marker = a.get("marker").map(|s| s.to_string());
    let algs = algs();
    for i in 0..n {
        vcommon::obs::mark_case(&marker, &format!("ser:{seed}:{i}"));
        let long = i % 10 == 9;
        let (s, v) = if long { cobs_structured(&mut r) } else if i % 5 == 2 { emit_structured(&mut r) } else if i % 4 == 0 {
            let s = gen::leaf_shape(&mut r);
            let v = gen::gval(&mut r, &s, false);
            (s, v)
        } else {
            let s = gen::gshape(&mut r, 2);
            let v = gen::gval(&mut r, &s, false);
            (s, v)
        };
        let sv = SV(&s, &v);
        let stack = if long { Stack::Cobs } else { [Stack::Plain, Stack::Cobs, Stack::Crc, Stack::CrcCobs][i % 4] };
        let alg = if matches!(stack, Stack::Crc | Stack::CrcCobs) { Some(&algs[if long { r.gen_range(0..3) } else { r.gen_range(0..algs.len()) }]) } else { None };
        // the length of the unbounded output is used only to choose which capacities to try
        let ub = run_unbounded(&sv, stack, alg, "allocvec");
        let full_len = ub["bytes"].as_array().map(|b| b.len()).unwrap_or(0);
        let mut ev = json!({"op":"serb","shape":s.to_json(),"value":v.to_json(),"stack":stack_json(stack, alg)});
        let mut outs = vec![];
        // C20: undoing the layers in reverse order recovers the value
        if let Some(bytes) = ub["bytes"].as_array() {
            let bytes: Vec<u8> = bytes.iter().map(|x| x.as_u64().unwrap() as u8).collect();
            outs.push(json!({"storage":"undo","cap":-1,"res":undo(&s, stack, alg, &bytes)}));
        }
        // byte-writer storages (std::io / embedded-io) of every capacity under no modifier or the checksum modifier
        // (COBS needs to patch earlier output and cannot sit on a writer)
        if matches!(stack, Stack::Plain | Stack::Crc) && full_len <= 40 {
            for cap in 0..=full_len + 1 {
                let kind = (cap + i) % 3; // 0: std::io failing, 1: std::io reporting Ok(0), 2: embedded-io failing
                outs.push(json!({"storage": if kind == 2 {"eio"} else {"io"},"cap":cap,"zero":(kind == 1) as u8,"res":run_writer(&sv, stack, alg, cap, kind)}));
            }
        }
        outs.push(json!({"storage":"allocvec","cap":-1,"res":ub}));
        outs.push(json!({"storage":"stdvec","cap":-1,"res":run_unbounded(&sv, stack, alg, "stdvec")}));
        if stack == Stack::Plain {
            outs.push(json!({"storage":"extend","cap":-1,"res":run_unbounded(&sv, stack, alg, "extend")}));
            let sz = match catch(|| postcard::experimental::serialized_size(&sv)) {
                Ok(Ok(n)) => json!({"ok":1,"size":n}),
                Ok(Err(e)) => json!({"ok":0,"err":errname(&e)}),
                Err(p) => json!({"ok":0,"err":"panic","at":p}),
            };
            outs.push(json!({"storage":"size","cap":-1,"res":sz}));
        }
        if stack == Stack::Crc {
            // the size counter under a modifier: the checksum bytes are counted too
            let a_ = alg.unwrap();
            let sz = match catch(|| with_digest!(a_, |d| postcard::serialize_with_flavor(&sv, sf::crc::CrcModifier::new(sf::Size::default(), d)))) {
                Ok(Ok(n)) => json!({"ok":1,"size":n}),
                Ok(Err(e)) => json!({"ok":0,"err":errname(&e)}),
                Err(p) => json!({"ok":0,"err":"panic","at":p}),
            };
            outs.push(json!({"storage":"size","cap":-1,"res":sz}));
        }
        let caps: Vec<usize> = if full_len <= 40 { (0..=full_len + 2).collect() } else {
            let mut c = vec![0, 1, 2, full_len / 2, 253, 254, 255, 256, 257, full_len - 2, full_len - 1, full_len, full_len + 1, full_len + 2];
            for _ in 0..6 { c.push(r.gen_range(0..full_len)); }
            c.sort(); c.dedup(); c
        };
        for &cap in &caps {
            outs.push(json!({"storage":"slice","cap":cap,"res":run_slice(&sv, stack, alg, cap, (cap + i) % 2 == 0)}));
            if let Some(j) = hvec_at(cap, &sv, stack, alg) {
                outs.push(json!({"storage":"hvec","cap":cap,"res":j}));
            }
        }
        ev["outs"] = json!(outs);
        out.ev(ev);
        // op-level: what the COBS flavour does to its storage, at a few capacities incl. the exact one
        if matches!(stack, Stack::Cobs | Stack::CrcCobs) && (full_len <= 600) {
            for cap in [full_len, full_len.saturating_sub(1), r.gen_range(0..=full_len), full_len + 3] {
                out.ev(cobs_ops_event(&s, &v, alg, cap));
            }
        }
        // C20: a user flavour receives exactly the plain encoding, through whichever methods the encoder chooses
        if !long && i % 3 == 0 {
            out.ev(user_flavor_event(&s, &v, i % 2 == 0, None, usize::MAX, false));
            out.ev(user_flavor_event(&s, &v, i % 2 == 1, Some(&algs[r.gen_range(0..algs.len())]), usize::MAX, false));
            // a user flavour that runs out of room after k bytes, or whose finalize fails
            let k = r.gen_range(0..=full_len.min(20));
            out.ev(user_flavor_event(&s, &v, i % 4 < 2, None, k, false));
            out.ev(user_flavor_event(&s, &v, i % 2 == 0, if i % 6 == 0 { Some(&algs[0]) } else { None }, usize::MAX, true));
        }
    }
    out.flush();
    eprintln!("ser: {} events", out.n);
}
