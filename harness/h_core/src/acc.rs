//! C08/C09: CobsAccumulator. Replays every edge of the model's state graph on the real object and records
//! long random / exhaustively chunked streams driven through the documented feed loop.
use crate::common::*;
use crate::Args;
use postcard::accumulator::{CobsAccumulator, FeedResult};
use rand::{rngs::StdRng, Rng, SeedableRng};
use serde_json::{json, Value as J};
use vcommon::obs::catch;
use vcommon::val::*;

pub trait DynAcc {
    /// one feed / feed_ref call, fully observed
    fn feed(&mut self, shape: &Shape, chunk: &[u8], by_ref: bool) -> J;
    fn state(&self) -> (Vec<u8>, usize);
    fn cap(&self) -> usize;
}
struct A<const N: usize>(CobsAccumulator<N>);
impl<const N: usize> DynAcc for A<N> {
    fn cap(&self) -> usize {
        N
    }
    fn state(&self) -> (Vec<u8>, usize) {
        let (b, i) = self.0.verif_state();
        (b[..i.min(N)].to_vec(), i)
    }
    fn feed(&mut self, shape: &Shape, chunk: &[u8], by_ref: bool) -> J {
        let (pre, pre_idx) = self.state();
        let base = self.0.verif_state().0.as_ptr();
        let cend = chunk.as_ptr() as usize + chunk.len();
        let rem = |r: &[u8]| -> (usize, u8) { (r.len(), (r.as_ptr() as usize + r.len() == cend) as u8) };
        let out = catch(|| {
            with_shape(shape, || {
                let res: FeedResult<'_, DynVal> = if by_ref { self.0.feed_ref::<DynVal>(chunk) } else { self.0.feed::<DynVal>(chunk) };
                match res {
                    FeedResult::Consumed => json!({"kind":"Consumed","rem_len":0,"rem_inplace":1}),
                    FeedResult::OverFull(r) => {
                        let (l, p) = rem(r);
                        json!({"kind":"OverFull","rem_len":l,"rem_inplace":p})
                    }
                    FeedResult::DeserError(r) => {
                        let (l, p) = rem(r);
                        json!({"kind":"DeserError","rem_len":l,"rem_inplace":p})
                    }
                    FeedResult::Success { data, remaining } => {
                        let (l, p) = rem(remaining);
                        json!({"kind":"Success","rem_len":l,"rem_inplace":p,"value":data.0.to_json()})
                    }
                }
            })
        });
        let mut ev = match out {
            Ok(j) => j,
            Err(p) => json!({"kind":"panic","at":p,"rem_len":0,"rem_inplace":0}),
        };
        let (post, idx) = self.state();
        ev["op"] = json!("feed");
        ev["n"] = json!(N);
        ev["target"] = shape.to_json();
        ev["mode"] = json!(if by_ref { "feed_ref" } else { "feed" });
        ev["pre"] = jb(&pre);
        ev["pre_idx"] = json!(pre_idx);
        ev["chunk"] = jb(chunk);
        ev["post"] = jb(&post);
        ev["idx"] = json!(idx);
        ev["leaves"] = leaves_json(base, N);
        ev
    }
}
macro_rules! mk {
    ($n:expr; $($k:literal),*) => { match $n { $($k => Some(Box::new(A::<$k>(CobsAccumulator::new())) as Box<dyn DynAcc>),)* _ => None } };
}
pub const CAPS: [usize; 26] = [0, 1, 2, 3, 4, 5, 6, 7, 8, 9, 10, 11, 12, 13, 14, 15, 16, 17, 24, 32, 33, 64, 256, 257, 300, 600];
pub fn make(n: usize) -> Option<Box<dyn DynAcc>> {
    mk!(n; 0, 1, 2, 3, 4, 5, 6, 7, 8, 9, 10, 11, 12, 13, 14, 15, 16, 17, 24, 32, 33, 64, 256, 257, 300, 600)
}

/// bring a fresh accumulator to the state "buffered = b" under a stale-content regime
fn bring(n: usize, b: &[u8], regime: u8, shape: &Shape) -> Box<dyn DynAcc> {
    let mut a = make(n).expect("capacity instantiated");
    if regime == 1 && n > 0 {
        // pollute the whole buffer with non-zero garbage, then overflow to reset idx
        let g = vec![0xEEu8; n];
        a.feed(shape, &g, false);
        a.feed(shape, &[0xEE], false);
    }
    if !b.is_empty() {
        a.feed(shape, b, false);
    }
    a
}

/// replay the edges printed by MC_Acc: {n, target, buf, chunk}
pub fn run_edges(a: &Args) {
    let inp = std::fs::read_to_string(a.get("in").expect("--in")).expect("read");
    let mut out = Out::new(&a.str("out", "/dev/stdout"));
    for line in inp.lines() {
        if line.trim().is_empty() {
            continue;
        }
        let j: J = serde_json::from_str(line).expect("edge json");
        let n = j["n"].as_u64().unwrap() as usize;
        let shape = Shape::from_json(&j["target"]);
        let b: Vec<u8> = j["buf"].as_array().unwrap().iter().map(|x| x.as_u64().unwrap() as u8).collect();
        let c: Vec<u8> = j["chunk"].as_array().unwrap().iter().map(|x| x.as_u64().unwrap() as u8).collect();
        for regime in 0..2u8 {
            for by_ref in [false, true] {
                let mut acc = bring(n, &b, regime, &shape);
                let (st, _) = acc.state();
                let mut ev = acc.feed(&shape, &c, by_ref);
                ev["regime"] = json!(regime);
                ev["ghost"] = json!(0);
                if st != b {
                    ev["setup_failed"] = json!(1); // the state could not be reached: itself a disagreement with the model
                }
                out.ev(ev);
            }
        }
    }
    out.flush();
    eprintln!("acc-edges: {} events", out.n);
}

// ------------------------------------------------------------------------------ streams
fn cobs_frame(payload: &[u8]) -> Vec<u8> {
    // input construction only (the specification judges whatever comes out): straightforward COBS
    let mut out = vec![0u8];
    let mut code_idx = 0usize;
    let mut run = 1u8;
    for &b in payload {
        if b == 0 {
            out[code_idx] = run;
            code_idx = out.len();
            out.push(0);
            run = 1;
        } else {
            out.push(b);
            run += 1;
            if run == 0xFF {
                out[code_idx] = run;
                code_idx = out.len();
                out.push(0);
                run = 1;
            }
        }
    }
    out[code_idx] = run;
    out.push(0);
    out
}
fn targets() -> Vec<Shape> {
    vec![
        Shape::Tuple(vec![Shape::U8, Shape::Bool]),
        Shape::Bytes,
        Shape::Str,
        Shape::Int(IntK::U16),
        Shape::Struct(vec![("a".into(), Shape::Int(IntK::U32)), ("b".into(), Shape::U8), ("c".into(), Shape::Str)]),
        Shape::Seq(Box::new(Shape::Int(IntK::I16))),
        // types whose encoding is empty: a bare sentinel and the frame [01 00] both deliver a value
        Shape::Unit,
        Shape::Tuple(vec![Shape::Unit, Shape::UnitStruct]),
    ]
}
fn piece(r: &mut StdRng, shape: &Shape, cap: usize) -> Vec<u8> {
    match r.gen_range(0..12) {
        0..=5 => {
            // a valid frame of the target type
            let v = vcommon::gen::gval(r, shape, false);
            let p = postcard::to_allocvec(&SV(shape, &v)).expect("encode");
            cobs_frame(&p)
        }
        6 => {
            // corrupt frame: flip / substitute a byte of a valid frame (keeping it zero-free inside)
            let v = vcommon::gen::gval(r, shape, false);
            let mut f = cobs_frame(&postcard::to_allocvec(&SV(shape, &v)).expect("encode"));
            let n = f.len();
            if n > 1 {
                let i = r.gen_range(0..n - 1);
                f[i] = match r.gen_range(0..3) { 0 => f[i].wrapping_add(1).max(1), 1 => 0xFF, _ => r.gen_range(1..=255) };
            }
            f
        }
        7 => vec![0],                                                        // empty frame
        8 => (0..r.gen_range(1..6)).map(|_| r.gen_range(1..=255)).chain([0]).collect(), // garbage segment
        9 => (0..r.gen_range(1..4)).map(|_| r.gen_range(1..=255)).collect(),            // garbage without terminator (joins the next piece)
        10 => {
            // over-long segment: cap + 0..3 non-zero bytes then a terminator
            let l = cap + r.gen_range(0..4);
            (0..l).map(|_| r.gen_range(1..=255)).chain([0]).collect()
        }
        _ => {
            // frame longer than 254 bytes of payload
            let p: Vec<u8> = (0..r.gen_range(250..300)).map(|_| r.gen()).collect();
            let b = postcard::to_allocvec(&SV(&Shape::Bytes, &Val::Bytes(p))).unwrap();
            cobs_frame(&b)
        }
    }
}
/// drive one chunking of `stream` through the documented loop, logging every feed call
fn drive(out: &mut Out, cap: usize, shape: &Shape, stream: &[u8], cuts: &[usize], by_ref: bool, sid: u64) -> Vec<J> {
    let mut delivered = vec![];
    let mut acc = make(cap).expect("capacity instantiated");
    out.ev(json!({"op":"acc_reset","n":cap,"target":shape.to_json(),"stream":jb(stream),"sid":sid}));
    let mut pos = 0;
    for &c in cuts {
        let chunk = &stream[pos..pos + c];
        pos += c;
        let mut window = chunk;
        let mut iters = 0usize;
        while !window.is_empty() {
            iters += 1;
            if iters > 2 * chunk.len() + 4 {
                out.ev(json!({"op":"feed_loop","n":cap,"chunk_len":chunk.len(),"iters":iters,"gave_up":1}));
                return delivered;
            }
            let mut ev = acc.feed(shape, window, by_ref);
            ev["ghost"] = json!(1);
            ev["regime"] = json!(0);
            let kind = ev["kind"].as_str().unwrap().to_string();
            let rem_len = ev["rem_len"].as_u64().unwrap() as usize;
            if kind == "Success" {
                delivered.push(ev["value"].clone());
            }
            out.ev(ev);
            if kind == "Consumed" || kind == "panic" {
                break;
            }
            window = &window[window.len() - rem_len.min(window.len())..];
        }
        out.ev(json!({"op":"feed_loop","n":cap,"chunk_len":chunk.len(),"iters":iters,"gave_up":0}));
    }
    delivered
}
/// replay the behaviours printed by MC_Link: {n, target, msgs, chunks, clean, faults}. The chunks (frames as the
/// specification encodes them, damaged by the model's channel) go through the documented loop on the real accumulator;
/// every call is logged as usual and the run ends with what was delivered, for the end-to-end judgement.
pub fn run_link(a: &Args) {
    let inp = std::fs::read_to_string(a.get("in").expect("--in")).expect("read");
    let mut out = Out::new(&a.str("out", "/dev/stdout"));
    let mut sid = 7_000_000u64;
    for line in inp.lines().filter(|l| !l.trim().is_empty()) {
        let j: J = serde_json::from_str(line).expect("link json");
        let n = j["n"].as_u64().unwrap() as usize;
        let shape = Shape::from_json(&j["target"]);
        let chunks: Vec<Vec<u8>> = j["chunks"].as_array().unwrap().iter().map(|c| c.as_array().unwrap().iter().map(|x| x.as_u64().unwrap() as u8).collect()).collect();
        let stream: Vec<u8> = chunks.concat();
        let cuts: Vec<usize> = chunks.iter().map(|c| c.len()).collect();
        for by_ref in [false, true] {
            sid += 1;
            let delivered = drive(&mut out, n, &shape, &stream, &cuts, by_ref, sid);
            out.ev(json!({"op":"link_done","n":n,"target":shape.to_json(),"msgs":j["msgs"],"clean":j["clean"],"faults":j["faults"],
                          "stream":jb(&stream),"delivered":delivered,"mode": if by_ref {"feed_ref"} else {"feed"}}));
        }
    }
    out.flush();
    eprintln!("acc-link: {} events", out.n);
}
pub fn run_streams(a: &Args) {
    let seed = a.num("seed", 1);
    let n = a.num("n", 50);
    let nexh = a.num("nexh", 6);
    let exh_len = a.num("exhlen", 9) as usize;
    let mut r = StdRng::seed_from_u64(seed ^ 0xacc);
    let mut out = Out::new(&a.str("out", "/dev/stdout"));
    let marker = a.get("marker").map(|s| s.to_string());
    let ts = targets();
    let mut sid = seed * 1_000_000;
    // long random streams, random chunkings
    for i in 0..n {
        vcommon::obs::mark_case(&marker, &format!("acc-stream:{seed}:{i}"));
        let shape = &ts[r.gen_range(0..ts.len())];
        // capacity relative to a frame of this type: exactly, one less, one more, or generous
        let probe = cobs_frame(&postcard::to_allocvec(&SV(shape, &vcommon::gen::gval(&mut r, shape, false))).unwrap()).len();
        let want = match r.gen_range(0..6) { 0 => probe.saturating_sub(1), 1 => probe, 2 => probe + 1, 3 => 64, 4 => 300, _ => r.gen_range(1..18) }.max(1);
        let cap = *CAPS.iter().filter(|c| **c >= 1).min_by_key(|c| (**c as i64 - want as i64).abs()).unwrap();
        let mut stream = vec![];
        for _ in 0..r.gen_range(1..9) {
            stream.extend(piece(&mut r, shape, cap));
        }
        if r.gen_range(0..3) == 0 {
            stream.pop(); // unterminated tail
        }
        let mut cuts = vec![];
        let mut left = stream.len();
        while left > 0 {
            let c = match r.gen_range(0..4) { 0 => 1, 1 => r.gen_range(1..=4), _ => r.gen_range(1..=40) }.min(left);
            cuts.push(c);
            left -= c;
        }
        sid += 1;
        drive(&mut out, cap, shape, &stream, &cuts, i % 2 == 1, sid);
    }
    // short streams: every chunking
    for i in 0..nexh {
        vcommon::obs::mark_case(&marker, &format!("acc-exh:{seed}:{i}"));
        let shape = &ts[r.gen_range(0..4)];
        let cap = [3usize, 4, 5, 6, 8][r.gen_range(0..5)];
        let mut stream = vec![];
        while stream.len() < exh_len {
            let mut p = piece(&mut r, shape, cap);
            if p.len() > 7 {
                p = vec![r.gen_range(1..=255), 0];
            }
            stream.extend(p);
        }
        stream.truncate(exh_len);
        let m = stream.len() - 1;
        for mask in 0u32..(1 << m) {
            let mut cuts = vec![];
            let mut cur = 1;
            for b in 0..m {
                if mask & (1 << b) != 0 {
                    cuts.push(cur);
                    cur = 1;
                } else {
                    cur += 1;
                }
            }
            cuts.push(cur);
            sid += 1;
            drive(&mut out, cap, shape, &stream, &cuts, mask % 2 == 1, sid);
        }
    }
    out.flush();
    eprintln!("acc-stream: {} events", out.n);
}
