//! C04: (1) a recording flavour around de_flavors::Slice logs every call the Deserializer makes, for
//! step-by-step validation against the cursor machine; (2) allocation measured while decoding adversarial
//! length claims into concrete std collections.
use crate::common::*;
use crate::transport::{Eio, Io};
use crate::Args;
use postcard::de_flavors::{Flavor, Slice};
use rand::{rngs::StdRng, Rng, SeedableRng};
use serde::de::DeserializeSeed;
use serde::Deserialize;
use serde_json::{json, Value as J};
use std::cell::RefCell;
use std::rc::Rc;
use vcommon::gen;
use vcommon::obs::{catch, measure, Guarded};
use vcommon::val::*;

struct RecSlice<'de> {
    inner: Slice<'de>,
    base: usize,
    log: Rc<RefCell<Vec<J>>>,
}
impl<'de> Flavor<'de> for RecSlice<'de> {
    type Remainder = &'de [u8];
    type Source = &'de [u8];
    fn pop(&mut self) -> postcard::Result<u8> {
        let r = self.inner.pop();
        self.log.borrow_mut().push(json!({"op":"df_pop","res": r.as_ref().map(|b| *b as i64).unwrap_or(-1)}));
        r
    }
    fn size_hint(&self) -> Option<usize> {
        let r = self.inner.size_hint();
        self.log.borrow_mut().push(json!({"op":"df_hint","res": r.map(|x| x as i64).unwrap_or(-1)}));
        r
    }
    fn try_take_n(&mut self, ct: usize) -> postcard::Result<&'de [u8]> {
        let r = self.inner.try_take_n(ct);
        let ev = match &r {
            Ok(b) => json!({"op":"df_take","ct":jb(&(ct as u64).to_le_bytes()),"ok":1,"off":(b.as_ptr() as usize).wrapping_sub(self.base),"len":b.len()}),
            Err(_) => json!({"op":"df_take","ct":jb(&(ct as u64).to_le_bytes()),"ok":0}),
        };
        self.log.borrow_mut().push(ev);
        r
    }
    fn finalize(self) -> postcard::Result<&'de [u8]> {
        let r = self.inner.finalize();
        if let Ok(b) = &r {
            self.log.borrow_mut().push(json!({"op":"df_fin","off":(b.as_ptr() as usize).wrapping_sub(self.base),"len":b.len()}));
        }
        r
    }
}

fn behaviour(out: &mut Out, s: &Shape, input: &[u8], side: u8) {
    let g = Guarded::from(input, side == 1);
    let buf: &[u8] = unsafe { std::slice::from_raw_parts(g.as_ref().as_ptr(), input.len()) };
    let log: Rc<RefCell<Vec<J>>> = Default::default();
    let n = buf.len();
    let r = catch(|| {
        let fl = RecSlice { inner: Slice::new(buf), base: buf.as_ptr() as usize, log: log.clone() };
        let mut d = postcard::Deserializer::from_flavor(fl);
        let v = Seed(s).deserialize(&mut d)?;
        let rem = d.finalize()?;
        Ok::<_, postcard::Error>((v, n - rem.len()))
    });
    out.ev(json!({"op":"df_start","input":jb(input)}));
    for e in log.borrow().iter() {
        out.ev(e.clone());
    }
    let res = match r {
        Ok(Ok((v, used))) => json!({"ok":1,"value":v.to_json(),"used":used}),
        Ok(Err(e)) => json!({"ok":0,"err":errname(&e)}),
        Err(p) => json!({"ok":0,"err":"panic","at":p}),
    };
    out.ev(json!({"op":"df_end","shape":s.to_json(),"res":res}));
}

/// direct call sequences on the flavour, including counts far beyond the input
fn direct_ops(out: &mut Out, r: &mut StdRng) {
    let n = r.gen_range(0..12);
    let input: Vec<u8> = (0..n).map(|_| r.gen()).collect();
    let g = Guarded::from(&input, r.gen());
    let buf: &[u8] = unsafe { std::slice::from_raw_parts(g.as_ref().as_ptr(), input.len()) };
    let log: Rc<RefCell<Vec<J>>> = Default::default();
    let _ = catch(|| {
        let mut fl = RecSlice { inner: Slice::new(buf), base: buf.as_ptr() as usize, log: log.clone() };
        for _ in 0..r.gen_range(1..10) {
            match r.gen_range(0..4) {
                0 => {
                    let _ = fl.pop();
                }
                1 => {
                    let _ = fl.size_hint();
                }
                _ => {
                    let remaining = fl.inner.size_hint().unwrap_or(0);
                    let ct = match r.gen_range(0..10) {
                        0 => usize::MAX,
                        1 => usize::MAX - r.gen_range(0..16),
                        2 => 1usize << r.gen_range(3..64),
                        3 => remaining,
                        4 => remaining + 1,
                        5 => remaining.saturating_sub(1),
                        6 => (usize::MAX).wrapping_sub(remaining).wrapping_add(1), // wraps the address space
                        7 => 0,
                        _ => r.gen_range(0..6),
                    };
                    let _ = fl.try_take_n(ct);
                }
            }
        }
        let _ = fl.finalize();
    });
    out.ev(json!({"op":"df_start","input":jb(&input)}));
    for e in log.borrow().iter() {
        out.ev(e.clone());
    }
}

// ------------------------------------------------------------------------- allocation
#[derive(Deserialize)]
#[allow(dead_code)]
struct Rec3 {
    a: u8,
    b: Vec<u32>,
    c: String,
}
static CRC32: crc::Crc<u32> = crc::Crc::<u32>::new(&crc::CRC_32_ISCSI);
fn alloc_one<T: serde::de::DeserializeOwned>(name: &str, esz: usize, assert: bool, input: &[u8], entry: u8, scratch: &mut [u8], out: &mut Out) {
    let sl = scratch.len();
    // the transport is created outside the measured region and does not log, so only postcard/serde allocate
    let mut rd = Io::reader(input, vec![3, 1, 7], None);
    rd.quiet = true;
    let (r, st) = measure(|| {
        catch(|| match entry {
            0 => postcard::from_bytes::<T>(input).map(|_| ()),
            3 => postcard::take_from_bytes_crc32::<T>(input, CRC32.digest()).map(|_| ()),
            1 => postcard::from_io::<T, _>((&mut rd, scratch)).map(|_| ()),
            _ => postcard::from_eio::<T, _>((Eio(&mut rd), scratch)).map(|_| ()),
        })
    });
    let res = match r {
        Ok(Ok(())) => "ok".to_string(),
        Ok(Err(e)) => errname(&e).to_string(),
        Err(_) => "panic".to_string(),
    };
    let ename = ["from_bytes", "from_io", "from_eio", "take_from_bytes_crc32"][entry as usize];
    out.ev(json!({"op":"alloc","ty":name,"esz":esz,"assert":assert as u8,"input":jb(input),"input_len":input.len(),"entry":ename,
                  "scratch_len": if entry == 0 || entry == 3 { 0 } else { sl },"alloc_peak":st.peak,"alloc_max":st.max_request,"res":res}));
}
fn varint(mut n: u128) -> Vec<u8> {
    let mut o = vec![];
    loop {
        let b = (n & 0x7f) as u8;
        n >>= 7;
        if n != 0 { o.push(b | 0x80) } else { o.push(b); return o; }
    }
}
fn alloc_events(out: &mut Out, r: &mut StdRng, n: usize) {
    use std::collections::{BTreeMap, VecDeque};
    use std::mem::size_of;
    for i in 0..n {
        // adversarial claimed lengths followed by a few bytes of payload
        let tail_len = r.gen_range(0..24usize);
        let claimed: u128 = match i % 8 {
            0 => u64::MAX as u128,
            1 => 1u128 << r.gen_range(4..64),
            2 => (1u128 << r.gen_range(4..64)) - 1,
            3 => tail_len as u128 + 1,
            4 => tail_len as u128,
            5 => tail_len.saturating_sub(1) as u128,
            6 => 1 << 20,
            _ => r.gen_range(0..100000),
        };
        let mut input = varint(claimed);
        input.extend((0..tail_len).map(|_| r.gen::<u8>() & 0x7f));
        if i % 16 == 15 {
            input.insert(0, 1); // Option<Vec<..>>: Some
        }
        let entry = (i % 4) as u8;
        let sl = [0usize, 8, 64, 300][r.gen_range(0..4)];
        let mut scratch = vec![0u8; sl];
        macro_rules! go {
            ($t:ty, $name:expr, $esz:expr, $assert:expr) => {{
                let mut sc = scratch.clone();
                alloc_one::<$t>($name, $esz, $assert, &input, entry, &mut sc, out);
            }};
        }
        let _ = &mut scratch;
        match (i / 3) % 14 {
            0 => go!(Vec<u8>, "Vec<u8>", 1, true),
            1 => go!(String, "String", 1, true),
            2 => go!(Box<[u8]>, "Box<[u8]>", 1, true),
            3 => go!(Vec<u16>, "Vec<u16>", size_of::<u16>(), true),
            4 => go!(Vec<u64>, "Vec<u64>", size_of::<u64>(), true),
            5 => go!(Vec<(u8, u32)>, "Vec<(u8,u32)>", size_of::<(u8, u32)>(), true),
            6 => go!(Vec<Vec<u8>>, "Vec<Vec<u8>>", size_of::<Vec<u8>>() + 8, true),
            7 => go!(Vec<String>, "Vec<String>", size_of::<String>() + 8, true),
            8 => go!(Option<Vec<u32>>, "Option<Vec<u32>>", size_of::<u32>(), true),
            9 => go!(VecDeque<u128>, "VecDeque<u128>", size_of::<u128>(), true),
            10 => go!(std::ffi::CString, "CString", 1, true),
            11 => go!(Rec3, "Rec3", size_of::<u32>() + 1, true),
            // maps are outside the allocation claim (the statement lists strings, byte buffers and sequences): measured, not asserted
            12 => go!(BTreeMap<u8, u8>, "BTreeMap<u8,u8>", 64, false),
            _ => go!(std::collections::HashMap<u16, u16>, "HashMap<u16,u16>", 64, false),
        }
    }
}

pub fn run(a: &Args) {
    let n = a.num("n", 100) as usize;
    let seed = a.num("seed", 1);
    let mut r = StdRng::seed_from_u64(seed ^ 0xde91);
    let mut out = Out::new(&a.str("out", "/dev/stdout"));
    let marker = a.get("marker").map(|s| s.to_string());
    for i in 0..n {
        vcommon::obs::mark_case(&marker, &format!("depipe:{seed}:{i}"));
        let s = if i % 3 == 0 { gen::leaf_shape(&mut r) } else { gen::gshape(&mut r, 3) };
        let v = gen::gval(&mut r, &s, i % 5 == 0);
        let b = postcard::to_allocvec(&SV(&s, &v)).expect("encode");
        behaviour(&mut out, &s, &b, (i % 2) as u8);
        // truncations, adversarial length prefixes, random damage
        for j in 0..4 {
            let mut m = b.clone();
            match j {
                0 => m.truncate(r.gen_range(0..=m.len())),
                1 => {
                    if !m.is_empty() {
                        let p = r.gen_range(0..m.len());
                        let big = [u64::MAX as u128, 1u128 << r.gen_range(7..64), (m.len() - p) as u128 + 1, (m.len() - p) as u128][r.gen_range(0..4)];
                        m.splice(p..p + 1, varint(big));
                    }
                }
                2 => {
                    if !m.is_empty() {
                        let p = r.gen_range(0..m.len());
                        m[p] = r.gen();
                    }
                }
                _ => m = (0..r.gen_range(0..12)).map(|_| r.gen()).collect(),
            }
            behaviour(&mut out, &s, &m, ((i + j) % 2) as u8);
        }
        direct_ops(&mut out, &mut r);
    }
    alloc_events(&mut out, &mut r, n * 2);
    out.flush();
    eprintln!("depipe: {} events", out.n);
}
