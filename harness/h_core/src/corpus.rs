//! C01/C02 on concrete Rust types: derived structs/enums of every form and serde's own std implementations.
//! The value given and the value decoded are both rendered as serde call trees (recording Serializer, no
//! postcard involved), so the specification judges `bytes = EncTree(tree)` and `decoded tree = tree`.
use crate::big_enum::Big;
use crate::common::*;
use crate::transport::{Eio, Io};
use crate::Args;
use serde::de::DeserializeOwned;
use serde::{Deserialize, Serialize};
use serde_json::json;
use std::collections::{BTreeMap, BTreeSet, BinaryHeap, HashMap, LinkedList, VecDeque};
use std::num::*;
use vcommon::obs::catch;
use vcommon::tree::call_tree;

const ENC: [&str; 7] = ["to_slice", "to_vec", "to_allocvec", "to_stdvec", "to_extend", "to_io", "to_eio"];
const DEC: [&str; 4] = ["take_from_bytes", "from_bytes", "from_io", "from_eio"];

fn enc<T: Serialize>(v: &T, e: usize) -> postcard::Result<Vec<u8>> {
    match e {
        0 => {
            let mut b = vec![0u8; 1 << 16];
            let n = postcard::to_slice(v, &mut b)?.len();
            b.truncate(n);
            Ok(b)
        }
        1 => Ok(postcard::to_vec::<_, 4096>(v)?.to_vec()),
        2 => postcard::to_allocvec(v),
        3 => postcard::to_stdvec(v),
        4 => Ok(postcard::to_extend(v, VecDeque::<u8>::new())?.into_iter().collect()),
        5 => {
            let mut w = Io::writer(vec![2, 1, 3], None);
            postcard::to_io(v, &mut w)?;
            Ok(w.data)
        }
        _ => {
            let mut w = Io::writer(vec![1, 4], None);
            postcard::to_eio(v, Eio(&mut w))?;
            Ok(w.data)
        }
    }
}
fn emit<T: Serialize + DeserializeOwned>(out: &mut Out, ty: &str, v: &T, i: usize) {
    let (e, d) = (i % ENC.len(), (i / ENC.len()) % DEC.len());
    let tail = [0x55u8, 0x00];
    let r = catch(|| -> Result<_, String> {
        let tree = call_tree(v).map_err(|x| x.0)?;
        let bytes = match enc(v, e) {
            // a value larger than the harness's fixed buffers says nothing about the property: use the growable entry
            Err(postcard::Error::SerializeBufferFull) if e <= 1 => enc(v, 2),
            r => r,
        }
        .map_err(|x| errname(&x).to_string())?;
        let mut input = bytes.clone();
        input.extend(tail);
        let mut scratch = vec![0u8; input.len() + 16];
        let (dv, used): (T, i64) = match d {
            0 => postcard::take_from_bytes::<T>(&input).map(|(x, rem)| (x, (input.len() - rem.len()) as i64)),
            1 => postcard::from_bytes::<T>(&input).map(|x| (x, -1)),
            2 => {
                let mut rd = Io::reader(&input, vec![1, 3, 2], None);
                let r = postcard::from_io::<T, _>((&mut rd, &mut scratch[..])).map(|(x, _)| x);
                r.map(|x| (x, rd.pos as i64))
            }
            _ => {
                let mut rd = Io::reader(&input, vec![2, 2, 5], None);
                let r = postcard::from_eio::<T, _>((Eio(&mut rd), &mut scratch[..])).map(|(x, _)| x);
                r.map(|x| (x, rd.pos as i64))
            }
        }
        .map_err(|x| format!("decode:{}", errname(&x)))?;
        let dtree = call_tree(&dv).map_err(|x| x.0)?;
        Ok((tree, bytes, dtree, used))
    });
    let mut ev = json!({"op":"rtt","ty":ty,"enc":ENC[e],"dec":DEC[d]});
    match r {
        Ok(Ok((tree, bytes, dtree, used))) => {
            ev["tree"] = tree;
            ev["bytes"] = jb(&bytes);
            ev["decoded_tree"] = dtree;
            ev["used"] = json!(used);
        }
        Ok(Err(e)) => ev["err"] = json!(e),
        Err(p) => ev["err"] = json!(format!("panic:{p}")),
    }
    out.ev(ev);
}

#[derive(Serialize, Deserialize)]
struct UnitS;
#[derive(Serialize, Deserialize)]
struct NewS(i64);
#[derive(Serialize, Deserialize)]
struct TupS(u8, Option<char>, String, f32);
#[derive(Serialize, Deserialize)]
struct Named {
    a: u16,
    b: i128,
    c: Vec<u8>,
    d: Option<Box<Named>>,
    e: (bool, f64),
    f: [i16; 4],
}
#[derive(Serialize, Deserialize)]
struct Gen<A, B> {
    x: A,
    y: Vec<B>,
    z: BTreeMap<String, A>,
}
#[derive(Serialize, Deserialize)]
enum Shapes {
    Unit,
    New(u32),
    Tup(i8, u64, String),
    Rec { r: f32, name: String, inner: Option<Box<Shapes>> },
    Empty(),
    EmptyRec {},
    Nested(Inner),
}
#[derive(Serialize, Deserialize)]
enum Inner {
    A,
    B(Vec<Inner>),
}
#[derive(Serialize, Deserialize)]
struct Everything {
    u: (u8, u16, u32, u64, u128, usize),
    i: (i8, i16, i32, i64, i128, isize),
    f: (f32, f64),
    c: char,
    s: String,
    o: Option<Option<u8>>,
    unit: (),
    us: UnitS,
    ph: std::marker::PhantomData<u64>,
    r: Result<u8, String>,
    nz: NonZeroU32,
    b: Box<[u16]>,
    cs: std::ffi::CString,
    rng: std::ops::Range<u16>,
    bd: std::ops::Bound<i32>,
    w: std::num::Wrapping<u8>,
    dur: std::time::Duration,
    ip: std::net::IpAddr,
    sock: std::net::SocketAddrV4,
    cell: std::cell::Cell<u8>,
    rev: std::cmp::Reverse<u16>,
}

pub fn run(a: &Args) {
    let reps = a.num("reps", 2) as usize;
    let seed = a.num("seed", 1) as usize;
    let mut out = Out::new(&a.str("out", "/dev/stdout"));
    let mut i = seed * 7;
    macro_rules! e {
        ($name:expr, $v:expr) => {{
            emit(&mut out, $name, &$v, i);
            i += 1;
        }};
    }
    for rep in 0..reps {
        let k = (seed * 131 + rep * 17) as u64;
        e!("UnitS", UnitS);
        e!("NewS", NewS(i64::MIN + k as i64));
        e!("TupS", TupS(k as u8, Some('€'), "s".repeat((k % 140) as usize), f32::from_bits(0x7fc0_0001 ^ k as u32)));
        let named = |d: u32| {
            let mut n = Named { a: 65535, b: i128::MIN, c: vec![0, 1, 255], d: None, e: (true, -0.0), f: [-1, 0, 1, i16::MIN] };
            for _ in 0..d {
                n = Named { a: k as u16, b: (k as i128) << 64, c: vec![], d: Some(Box::new(n)), e: (false, f64::NAN), f: [0; 4] };
            }
            n
        };
        e!("Named", named(0));
        e!("Named(nested)", named(3));
        e!("Gen<u8,String>", Gen { x: k as u8, y: vec!["a".to_string(), String::new()], z: [("k".to_string(), 1u8), ("l".to_string(), 2)].into_iter().collect() });
        e!("Gen<Shapes,()>", Gen { x: Shapes::Tup(-1, u64::MAX, "t".into()), y: vec![(), ()], z: BTreeMap::new() });
        for s in [
            Shapes::Unit,
            Shapes::New(u32::MAX - k as u32),
            Shapes::Tup(i8::MIN, k, "é".into()),
            Shapes::Rec { r: 1.5, name: "n".into(), inner: Some(Box::new(Shapes::Empty())) },
            Shapes::Empty(),
            Shapes::EmptyRec {},
            Shapes::Nested(Inner::B(vec![Inner::A, Inner::B(vec![])])),
        ] {
            e!("Shapes", s);
        }
        for b in [Big::V0, Big::V127, Big::Tail(k as u8), Big::Last { x: 300 + k as u16 }] {
            e!("Big", b);
        }
        e!("Everything", Everything {
            u: (255, 65535, u32::MAX, u64::MAX, u128::MAX, usize::MAX),
            i: (i8::MIN, i16::MIN, i32::MIN, i64::MIN, i128::MIN, isize::MIN),
            f: (f32::from_bits(1), f64::from_bits(0x7ff0_0000_0000_0001)),
            c: '\u{10ffff}',
            s: "héllo €😀".into(),
            o: Some(None),
            unit: (),
            us: UnitS,
            ph: std::marker::PhantomData,
            r: Err("e".into()),
            nz: NonZeroU32::new(1 + k as u32).unwrap(),
            b: vec![1u16, 128, 16384].into_boxed_slice(),
            cs: std::ffi::CString::new("c-string").unwrap(),
            rng: 3..k as u16,
            bd: std::ops::Bound::Excluded(-5),
            w: std::num::Wrapping(200),
            dur: std::time::Duration::new(k, 999_999_999),
            ip: if k % 2 == 0 { "10.1.2.3".parse().unwrap() } else { "fe80::1".parse().unwrap() },
            sock: "127.0.0.1:8080".parse().unwrap(),
            cell: std::cell::Cell::new(7),
            rev: std::cmp::Reverse(9),
        });
        // serde's std collections and wrappers
        e!("Vec<Vec<String>>", vec![vec!["a".to_string()], vec![], vec!["b".to_string(), "ç".to_string()]]);
        e!("VecDeque<i32>", [1i32, -1, i32::MIN].into_iter().collect::<VecDeque<_>>());
        e!("LinkedList<u8>", [1u8, 2].into_iter().collect::<LinkedList<_>>());
        e!("BTreeSet<String>", ["b".to_string(), "a".to_string()].into_iter().collect::<BTreeSet<_>>());
        e!("BinaryHeap<u8>(1)", [k as u8].into_iter().collect::<BinaryHeap<_>>());
        e!("HashMap<u8,u8>(1)", [(k as u8, 2u8)].into_iter().collect::<HashMap<_, _>>());
        e!("BTreeMap<(u8,i8),Vec<u16>>", [((1u8, -1i8), vec![1u16]), ((2, 2), vec![])].into_iter().collect::<BTreeMap<_, _>>());
        e!("Option<Option<()>>", Some(Option::<()>::None));
        e!("[[u8;3];2]", [[1u8, 2, 3], [4, 5, 6]]);
        e!("[u64;0]", [0u64; 0]);
        e!("(12-tuple)", (1u8, 2u16, 3u32, 4u64, 5i8, 6i16, 7i32, 8i64, 'x', true, 1.0f32, "s".to_string()));
        e!("Rc<Arc<Box<u16>>>", std::rc::Rc::new(std::sync::Arc::new(Box::new(k as u16))));
        e!("Cow<str>", std::borrow::Cow::<str>::Owned("cow".into()));
        e!("String(127)", "a".repeat(127));
        e!("String(128)", "b".repeat(128));
        e!("String(16384)", "c".repeat(16384));
        e!("Vec<u8>(300)", vec![k as u8; 300]);
        e!("NonZeroI128", NonZeroI128::new(-1 - k as i128).unwrap());
        e!("RangeInclusive<u8>", 1u8..=k as u8);
        e!("heapless::Vec<u16,8>", { let mut v: heapless::Vec<u16, 8> = heapless::Vec::new(); v.push(k as u16).unwrap(); v.push(128).unwrap(); v });
        e!("heapless::String<16>", heapless::String::<16>::from("héap"));
        e!("SystemTime", std::time::UNIX_EPOCH + std::time::Duration::new(1_700_000_000 + k, 5));
    }
    out.flush();
    eprintln!("corpus: {} events", out.n);
}
