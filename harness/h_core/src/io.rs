//! C11: reader / writer transports. Scripted readers deliver data in pieces and may fail at a byte offset;
//! scripted writers accept data in pieces and may fail (or report "full" with Ok(0)) at a byte offset.
use crate::common::*;
use crate::transport::{Eio, Io, Shared, SharedEio};
use crate::Args;
use rand::{rngs::StdRng, Rng, SeedableRng};
use serde_json::{json, Value as J};
use vcommon::gen;
use vcommon::obs::{catch, Guarded};
use vcommon::val::*;

fn sched(r: &mut StdRng) -> Vec<usize> {
    match r.gen_range(0..4) {
        0 => vec![1],
        1 => vec![],                                   // whole
        2 => (0..r.gen_range(1..5)).map(|_| r.gen_range(1..4)).collect(),
        _ => (0..r.gen_range(1..4)).map(|_| r.gen_range(1..20)).collect(),
    }
}

/// decode up to `count` consecutive messages from one stream with one scratch buffer
fn io_de(out: &mut Out, shape: &Shape, stream: &[u8], sch: Vec<usize>, fail_at: Option<usize>, scratch_len: usize, eio: bool, count: usize, side: bool) {
    let mut g = Guarded::new(scratch_len, side);
    g.as_mut().fill(0xA5);
    let sbase = g.as_ref().as_ptr();
    let rd = Shared::new(Io::reader(stream, sch.clone(), fail_at));
    let mut msgs = vec![];
    // scratch handed from call to call
    let mut scratch: &mut [u8] = g.as_mut();
    for _ in 0..count {
        let before = rd.pos();
        let sc_off = scratch.as_ptr() as usize - sbase as usize;
        let sc_len = scratch.len();
        // the scratch slice is moved into the call; on failure it is gone (postcard does not hand it back)
        let taken = std::mem::take(&mut scratch);
        let r = catch(|| {
            with_shape(shape, || {
                if eio {
                    postcard::from_eio::<DynVal, _>((SharedEio(rd.clone()), taken)).map(|(v, (_, rest))| (v.0, rest))
                } else {
                    postcard::from_io::<DynVal, _>((rd.clone(), taken)).map(|(v, (_, rest))| (v.0, rest))
                }
            })
        });
        let leaves = leaves_json(sbase, scratch_len);
        match r {
            Ok(Ok((v, rest))) => {
                let roff = rest.as_ptr() as usize - sbase as usize;
                msgs.push(json!({"res":{"ok":1,"value":v.to_json()},"rd_before":before,"rd_after":rd.pos(),"sc_off":sc_off,"sc_len":sc_len,
                                 "rem_off":roff,"rem_len":rest.len(),"leaves":leaves}));
                scratch = rest;
            }
            Ok(Err(e)) => {
                msgs.push(json!({"res":{"ok":0,"err":errname(&e)},"rd_before":before,"rd_after":rd.pos(),"sc_off":sc_off,"sc_len":sc_len}));
                break;
            }
            Err(p) => {
                msgs.push(json!({"res":{"ok":0,"err":"panic","at":p},"rd_before":before,"rd_after":rd.pos(),"sc_off":sc_off,"sc_len":sc_len}));
                break;
            }
        }
    }
    let log = rd.0.borrow().log.clone();
    out.ev(json!({"op":"io_de","shape":shape.to_json(),"stream":jb(stream),"sched":sch,"fail_at":fail_at.map(|x| x as i64).unwrap_or(-1),
                  "scratch_len":scratch_len,"entry": if eio {"eio"} else {"io"},"msgs":msgs,"log":log}));
}

fn io_ser(out: &mut Out, shape: &Shape, v: &Val, sch: Vec<usize>, fail_at: Option<usize>, eio: bool, zero: bool, flush_fail: bool) {
    let mut w = Io::writer(sch.clone(), fail_at);
    w.zero_on_full = zero;
    w.flush_fail = flush_fail;
    let sv = SV(shape, v);
    let r = catch(|| if eio { postcard::to_eio(&sv, Eio(&mut w)).map(|_| ()) } else { postcard::to_io(&sv, &mut w).map(|_| ()) });
    let res = match r {
        Ok(Ok(())) => json!({"ok":1}),
        Ok(Err(e)) => json!({"ok":0,"err":errname(&e)}),
        Err(p) => json!({"ok":0,"err":"panic","at":p}),
    };
    out.ev(json!({"op":"io_ser","shape":shape.to_json(),"value":v.to_json(),"sched":sch,"fail_at":fail_at.map(|x| x as i64).unwrap_or(-1),"zero":zero as u8,"flush_fail":flush_fail as u8,
                  "entry": if eio {"eio"} else {"io"},"res":res,"written":jb(&w.data),"flushed":w.flushed,"log":w.log.clone()}));
}

fn scratch_need(v: &Val, s: &Shape) -> usize {
    // used only to choose which scratch sizes to try (0..need+1); the specification computes the real requirement
    match (s, v) {
        (Shape::F32, _) => 4,
        (Shape::F64, _) => 8,
        (Shape::Char, Val::Char(c)) => c.len_utf8(),
        (Shape::Str, Val::Str(b)) | (Shape::Bytes, Val::Bytes(b)) => b.len(),
        (Shape::Opt(t), Val::Some(x)) => scratch_need(x, t),
        (Shape::NewtypeStruct(t), x) => scratch_need(x, t),
        (Shape::Seq(t), Val::Seq(xs)) => xs.iter().map(|x| scratch_need(x, t)).sum(),
        (Shape::Tuple(ts), Val::Seq(xs)) | (Shape::TupleStruct(ts), Val::Seq(xs)) => ts.iter().zip(xs).map(|(t, x)| scratch_need(x, t)).sum(),
        (Shape::Struct(fs), Val::Seq(xs)) => fs.iter().zip(xs).map(|((_, t), x)| scratch_need(x, t)).sum(),
        (Shape::Map(k, vt), Val::Map(ps)) => ps.iter().map(|(a, b)| scratch_need(a, k) + scratch_need(b, vt)).sum(),
        (Shape::Enum(vs), Val::Variant(i, p)) => match (&vs[*i as usize].1, &**p) {
            (Data::Newtype(t), x) => scratch_need(x, t),
            (Data::Tuple(ts), Val::Seq(xs)) => ts.iter().zip(xs).map(|(t, x)| scratch_need(x, t)).sum(),
            (Data::Struct(fs), Val::Seq(xs)) => fs.iter().zip(xs).map(|((_, t), x)| scratch_need(x, t)).sum(),
            _ => 0,
        },
        _ => 0,
    }
}

pub fn run(a: &Args) {
    let n = a.num("n", 100) as usize;
    let seed = a.num("seed", 1);
    let mut r = StdRng::seed_from_u64(seed ^ 0x10);
    let mut out = Out::new(&a.str("out", "/dev/stdout"));
    let marker = a.get("marker").map(|s| s.to_string());
    let fix = a.num("fix", 0) == 1;
    let borrowy = [
        Shape::Struct(vec![("a".into(), Shape::Str), ("f".into(), Shape::F32), ("b".into(), Shape::Bytes)]),
        Shape::Tuple(vec![Shape::Str, Shape::Str]),
        Shape::Seq(Box::new(Shape::Str)),
        Shape::Tuple(vec![Shape::Char, Shape::F64, Shape::Int(IntK::U16)]),
        Shape::Str,
    ];
    for i in 0..n {
        vcommon::obs::mark_case(&marker, &format!("io:{seed}:{i}"));
        let s = if fix {
            // C13: fixed-width adapters through the byte transports, bare and between ordinary fields
            let f = Shape::Fix(i % 2 == 1, IntK::ALL[(i / 2) % 8]);
            if (i / 16) % 2 == 0 { f } else { Shape::Tuple(vec![Shape::U8, f, Shape::Str]) }
        } else if i % 3 == 0 { borrowy[r.gen_range(0..borrowy.len())].clone() } else if i % 3 == 1 { gen::leaf_shape(&mut r) } else { gen::gshape(&mut r, 2) };
        let eio = if fix { (i / 32) % 2 == 1 } else { i % 2 == 1 };
        // ---- writer side
        let v = gen::gval(&mut r, &s, false);
        let plain = postcard::to_allocvec(&SV(&s, &v)).expect("encode");
        io_ser(&mut out, &s, &v, sched(&mut r), None, eio, false, false);
        io_ser(&mut out, &s, &v, sched(&mut r), None, eio, false, true); // the final flush fails
        if plain.len() <= 24 {
            for f in 0..=plain.len() {
                io_ser(&mut out, &s, &v, sched(&mut r), Some(f), eio, false, false);
                if !eio {
                    io_ser(&mut out, &s, &v, sched(&mut r), Some(f), false, true, false); // bounded writer reporting "full" as Ok(0)
                }
            }
        } else {
            for _ in 0..6 {
                let f = r.gen_range(0..=plain.len());
                io_ser(&mut out, &s, &v, sched(&mut r), Some(f), eio, r.gen::<bool>() && !eio, false);
            }
        }
        // ---- reader side: 1..3 messages back to back on one stream
        let k = r.gen_range(1..=3);
        let vals: Vec<Val> = (0..k).map(|_| gen::gval(&mut r, &s, false)).collect();
        let mut stream = vec![];
        for v in &vals {
            stream.extend(postcard::to_allocvec(&SV(&s, v)).expect("encode"));
        }
        let need: usize = vals.iter().map(|v| scratch_need(v, &s)).sum();
        if i % 4 == 0 {
            stream.extend([0x01, 0x80]); // bytes after the last message must stay unread
        }
        // scratch sizes 0..need+1 (all for small needs), no fault
        let sizes: Vec<usize> = if need <= 12 { (0..=need + 1).collect() } else { vec![0, 1, need / 2, need - 1, need, need + 1, need + 40] };
        for (j, &m) in sizes.iter().enumerate() {
            io_de(&mut out, &s, &stream, sched(&mut r), None, m, eio, k, j % 2 == 0);
        }
        // a fault at every byte offset (all for short streams), ample and exact scratch
        let offs: Vec<usize> = if stream.len() <= 24 { (0..=stream.len()).collect() } else { (0..8).map(|_| r.gen_range(0..=stream.len())).collect() };
        for (j, &f) in offs.iter().enumerate() {
            io_de(&mut out, &s, &stream, sched(&mut r), Some(f), if j % 2 == 0 { need + 8 } else { need }, eio, k, j % 2 == 1);
        }
        // damaged streams with ample scratch
        for _ in 0..3 {
            let mut m = stream.clone();
            if !m.is_empty() {
                let p = r.gen_range(0..m.len());
                m[p] = [0, 1, 2, 0x7f, 0x80, 0xff][r.gen_range(0..6)];
            }
            if r.gen() {
                m.truncate(r.gen_range(0..=m.len()));
            }
            io_de(&mut out, &s, &m, sched(&mut r), None, m.len() + 16, eio, k, false);
        }
        // length prefixes no buffer can satisfy (up to usize::MAX), with small and exact scratch: an error, as on the slice path
        if i % 4 == 1 {
            for (j, pre) in [vec![0xFFu8, 0xFF, 0xFF, 0xFF, 0xFF, 0xFF, 0xFF, 0xFF, 0xFF, 0x01], vec![0xF0, 0xFF, 0xFF, 0xFF, 0xFF, 0xFF, 0xFF, 0xFF, 0xFF, 0x01],
                             vec![0x80, 0x80, 0x80, 0x80, 0x80, 0x80, 0x80, 0x80, 0x80, 0x01], vec![0xFF, 0xFF, 0xFF, 0xFF, 0x0F], vec![0x09]].into_iter().enumerate() {
                let sh = if j % 2 == 0 { Shape::Str } else { Shape::Bytes };
                let mut m = pre.clone();
                m.extend([b'a', b'b', b'c']);
                io_de(&mut out, &sh, &m, sched(&mut r), None, [0usize, 3, 8, 64][(i / 4 + j) % 4], eio, 1, j % 2 == 0);
            }
        }
    }
    out.flush();
    eprintln!("io: {} events", out.n);
}
