use serde_json::{json, Value as J};
use std::io::Write;

pub fn errname(e: &postcard::Error) -> &'static str {
    use postcard::Error::*;
    match e {
        WontImplement => "WontImplement",
        NotYetImplemented => "NotYetImplemented",
        SerializeBufferFull => "BufferFull",
        SerializeSeqLengthUnknown => "SeqLengthUnknown",
        DeserializeUnexpectedEnd => "End",
        DeserializeBadVarint => "BadVarint",
        DeserializeBadBool => "BadBool",
        DeserializeBadChar => "BadChar",
        DeserializeBadUtf8 => "BadUtf8",
        DeserializeBadOption => "BadOption",
        DeserializeBadEnum => "BadEnum",
        DeserializeBadEncoding => "BadEncoding",
        DeserializeBadCrc => "BadCrc",
        SerdeSerCustom => "SerCustom",
        SerdeDeCustom => "Custom",
        CollectStrError => "CollectStr",
        _ => "Other",
    }
}

pub struct Out {
    w: std::io::BufWriter<std::fs::File>,
    pub n: u64,
}
impl Out {
    pub fn new(path: &str) -> Out {
        Out { w: std::io::BufWriter::new(std::fs::File::create(path).expect("create out")), n: 0 }
    }
    pub fn ev(&mut self, j: J) {
        writeln!(self.w, "{}", j).unwrap();
        self.n += 1;
    }
    pub fn flush(&mut self) {
        self.w.flush().unwrap();
    }
}
pub fn jb(b: &[u8]) -> J {
    json!(b)
}
