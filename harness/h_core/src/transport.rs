//! Scripted byte transports: writers that accept data in pieces, readers that deliver data in
//! pieces, both with an optional injected failure at a byte offset. Every call is logged.
use serde_json::{json, Value as J};

#[derive(Debug)]
pub struct Io {
    pub data: Vec<u8>,
    pub pos: usize,
    /// pieces: each call transfers at most sched[i % len] bytes (0 is treated as 1)
    pub sched: Vec<usize>,
    pub calls: usize,
    /// fail when the transfer would touch this byte offset
    pub fail_at: Option<usize>,
    pub log: Vec<J>,
    pub flushed: usize,
    /// do not log calls (used while allocation is being measured)
    pub quiet: bool,
    /// writer: report exhaustion as Ok(0) (like `&mut [u8]`) instead of an error
    pub zero_on_full: bool,
    /// writer: flush() reports an error
    pub flush_fail: bool,
}
impl Io {
    pub fn reader(data: &[u8], sched: Vec<usize>, fail_at: Option<usize>) -> Io {
        Io { data: data.to_vec(), pos: 0, sched, calls: 0, fail_at, log: vec![], flushed: 0, quiet: false, zero_on_full: false, flush_fail: false }
    }
    pub fn writer(sched: Vec<usize>, fail_at: Option<usize>) -> Io {
        Io { data: vec![], pos: 0, sched, calls: 0, fail_at, log: vec![], flushed: 0, quiet: false, zero_on_full: false, flush_fail: false }
    }
    fn note(&mut self, j: J) {
        if !self.quiet {
            self.log.push(j);
        }
    }
    fn piece(&mut self, want: usize) -> usize {
        let k = if self.sched.is_empty() { want } else { self.sched[self.calls % self.sched.len()].max(1) };
        self.calls += 1;
        k.min(want)
    }
    pub fn do_read(&mut self, buf: &mut [u8]) -> Result<usize, ()> {
        if buf.is_empty() {
            self.note(json!(["r", 0, 0]));
            return Ok(0);
        }
        let avail = self.data.len() - self.pos;
        let mut k = self.piece(buf.len()).min(avail);
        if let Some(f) = self.fail_at {
            if self.pos + k > f || (k == 0 && self.pos >= f) {
                if f > self.pos {
                    k = f - self.pos; // deliver the bytes before the fault first
                } else {
                    self.note(json!(["r", buf.len(), -1]));
                    return Err(());
                }
            }
        }
        buf[..k].copy_from_slice(&self.data[self.pos..self.pos + k]);
        self.pos += k;
        self.note(json!(["r", buf.len(), k]));
        Ok(k)
    }
    pub fn do_write(&mut self, buf: &[u8]) -> Result<usize, ()> {
        if buf.is_empty() {
            self.note(json!(["w", 0, 0]));
            return Ok(0);
        }
        let mut k = self.piece(buf.len());
        if let Some(f) = self.fail_at {
            if self.data.len() + k > f {
                if f > self.data.len() {
                    k = f - self.data.len();
                } else if self.zero_on_full {
                    self.note(json!(["w", buf.len(), 0]));
                    return Ok(0);
                } else {
                    self.note(json!(["w", buf.len(), -1]));
                    return Err(());
                }
            }
        }
        self.data.extend_from_slice(&buf[..k]);
        self.note(json!(["w", buf.len(), k]));
        Ok(k)
    }
    pub fn do_flush(&mut self) -> Result<(), ()> {
        self.flushed += 1;
        self.note(json!(["f"]));
        if self.flush_fail {
            return Err(());
        }
        Ok(())
    }
}
impl std::io::Read for Io {
    fn read(&mut self, buf: &mut [u8]) -> std::io::Result<usize> {
        self.do_read(buf).map_err(|_| std::io::Error::new(std::io::ErrorKind::Other, "injected"))
    }
}
impl std::io::Write for Io {
    fn write(&mut self, buf: &[u8]) -> std::io::Result<usize> {
        self.do_write(buf).map_err(|_| std::io::Error::new(std::io::ErrorKind::Other, "injected"))
    }
    fn flush(&mut self) -> std::io::Result<()> {
        self.do_flush().map_err(|_| std::io::Error::new(std::io::ErrorKind::Other, "injected"))
    }
}

/// an owned handle on a shared transport (the reader travels by value through from_io / from_eio)
#[derive(Clone)]
pub struct Shared(pub std::rc::Rc<std::cell::RefCell<Io>>);
impl Shared {
    pub fn new(io: Io) -> Shared {
        Shared(std::rc::Rc::new(std::cell::RefCell::new(io)))
    }
    pub fn pos(&self) -> usize {
        self.0.borrow().pos
    }
}
impl std::io::Read for Shared {
    fn read(&mut self, buf: &mut [u8]) -> std::io::Result<usize> {
        self.0.borrow_mut().do_read(buf).map_err(|_| std::io::Error::new(std::io::ErrorKind::Other, "injected"))
    }
}
#[derive(Clone)]
pub struct SharedEio(pub Shared);

/// the same transport behind the embedded-io traits
pub struct Eio<'a>(pub &'a mut Io);

#[cfg(feature = "eio06")]
mod e6 {
    use super::*;
    #[derive(Debug)]
    pub struct Injected;
    impl eio6::Error for Injected {
        fn kind(&self) -> eio6::ErrorKind {
            eio6::ErrorKind::Other
        }
    }
    impl eio6::ErrorType for Eio<'_> {
        type Error = Injected;
    }
    impl eio6::ErrorType for SharedEio {
        type Error = Injected;
    }
    impl eio6::Read for SharedEio {
        fn read(&mut self, buf: &mut [u8]) -> Result<usize, Injected> {
            self.0 .0.borrow_mut().do_read(buf).map_err(|_| Injected)
        }
    }
    impl eio6::Read for Eio<'_> {
        fn read(&mut self, buf: &mut [u8]) -> Result<usize, Injected> {
            self.0.do_read(buf).map_err(|_| Injected)
        }
    }
    impl eio6::Write for Eio<'_> {
        fn write(&mut self, buf: &[u8]) -> Result<usize, Injected> {
            self.0.do_write(buf).map_err(|_| Injected)
        }
        fn flush(&mut self) -> Result<(), Injected> {
            self.0.do_flush().map_err(|_| Injected)
        }
    }
}
#[cfg(feature = "eio04")]
mod e4 {
    use super::*;
    #[derive(Debug)]
    pub struct Injected;
    impl eio4::Error for Injected {
        fn kind(&self) -> eio4::ErrorKind {
            eio4::ErrorKind::Other
        }
    }
    impl eio4::Io for Eio<'_> {
        type Error = Injected;
    }
    impl eio4::Io for SharedEio {
        type Error = Injected;
    }
    impl eio4::blocking::Read for SharedEio {
        fn read(&mut self, buf: &mut [u8]) -> Result<usize, Injected> {
            self.0 .0.borrow_mut().do_read(buf).map_err(|_| Injected)
        }
    }
    impl eio4::blocking::Read for Eio<'_> {
        fn read(&mut self, buf: &mut [u8]) -> Result<usize, Injected> {
            self.0.do_read(buf).map_err(|_| Injected)
        }
    }
    impl eio4::blocking::Write for Eio<'_> {
        fn write(&mut self, buf: &[u8]) -> Result<usize, Injected> {
            self.0.do_write(buf).map_err(|_| Injected)
        }
        fn flush(&mut self) -> Result<(), Injected> {
            self.0.do_flush().map_err(|_| Injected)
        }
    }
}
