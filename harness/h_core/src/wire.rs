//! Wire-format drivers: round trips over every entry-point pairing, decoding of arbitrary bytes,
//! exhaustive 16-bit varint strings, replay of TLC-generated vectors.
use crate::common::*;
use crate::transport::{Eio, Io};
use crate::Args;
use rand::{rngs::StdRng, Rng, SeedableRng};
use serde::de::DeserializeSeed;
use serde_json::{json, Value as J};
use std::cell::RefCell;
use std::rc::Rc;
use vcommon::gen;
use vcommon::obs::{catch, measure, Guarded};
use vcommon::val::*;
#[allow(unused_imports)]
use vcommon::val::HINTS;

pub const ENC_ENTRIES: [&str; 7] = ["to_slice", "to_vec", "to_allocvec", "to_stdvec", "to_extend", "to_io", "to_eio"];
pub const DEC_ENTRIES: [&str; 5] = ["take_from_bytes", "from_bytes", "from_io", "from_eio", "deserializer"];

pub fn encode(entry: usize, s: &Shape, v: &Val) -> Result<Vec<u8>, String> {
    let sv = SV(s, v);
    let r = catch(|| -> Result<Vec<u8>, postcard::Error> {
        match entry {
            0 => {
                let mut g = Guarded::new(8192, true);
                let n = postcard::to_slice(&sv, g.as_mut())?.len();
                Ok(g.as_ref()[..n].to_vec())
            }
            1 => Ok(postcard::to_vec::<_, 2048>(&sv)?.to_vec()),
            2 => postcard::to_allocvec(&sv),
            3 => postcard::to_stdvec(&sv),
            4 => Ok(postcard::to_extend(&sv, std::collections::VecDeque::<u8>::new())?.into_iter().collect()),
            5 => {
                // a writer that accepts data in small pieces (1, 3, 2, ... bytes per call)
                let mut w = Io::writer(vec![1, 3, 2, 7], None);
                postcard::to_io(&sv, &mut w)?;
                Ok(w.data)
            }
            6 => {
                let mut w = Io::writer(vec![2, 1, 5], None);
                postcard::to_eio(&sv, Eio(&mut w))?;
                Ok(w.data)
            }
            _ => unreachable!(),
        }
    });
    match r {
        Ok(Ok(b)) => Ok(b),
        Ok(Err(e)) => Err(errname(&e).to_string()),
        Err(p) => Err(format!("panic:{p}")),
    }
}

fn res_json(r: Result<Result<(Val, i64), postcard::Error>, String>) -> J {
    match r {
        Ok(Ok((v, used))) => json!({"ok":1,"value":v.to_json(),"used":used}),
        Ok(Err(e)) => json!({"ok":0,"err":errname(&e)}),
        Err(p) => json!({"ok":0,"err":"panic","at":p}),
    }
}

/// decode `input` as `s` through entry point `entry`; `side`: 0 = plain Vec, 1 = end-flush guard, 2 = start-flush guard
pub fn decode(entry: usize, s: &Shape, input: &[u8], side: u8, extra: &mut J) -> J {
    let g;
    let buf: &[u8] = match side {
        0 => input,
        1 => {
            g = Guarded::from(input, true);
            unsafe { std::slice::from_raw_parts(g.as_ref().as_ptr(), input.len()) }
        }
        _ => {
            g = Guarded::from(input, false);
            unsafe { std::slice::from_raw_parts(g.as_ref().as_ptr(), input.len()) }
        }
    };
    let n = buf.len();
    let mut scratch = vec![0xA5u8; n + 16];
    let sbase = scratch.as_ptr();
    let slen = scratch.len();
    let (r, st) = measure(|| {
        catch(|| -> Result<(Val, i64), postcard::Error> {
            with_shape(s, || match entry {
                0 => postcard::take_from_bytes::<DynVal>(buf).map(|(v, rem)| {
                    // the remainder must be the tail of the input, in place
                    let used = if rem.as_ptr() as usize + rem.len() == buf.as_ptr() as usize + n { (n - rem.len()) as i64 } else { -2 };
                    (v.0, used)
                }),
                1 => postcard::from_bytes::<DynVal>(buf).map(|v| (v.0, -1)),
                2 => {
                    let mut rd = Io::reader(buf, vec![1, 2, 5, 3], None);
                    let r = postcard::from_io::<DynVal, _>((&mut rd, &mut scratch[..])).map(|(v, _)| v.0);
                    r.map(|v| (v, rd.pos as i64))
                }
                3 => {
                    let mut rd = Io::reader(buf, vec![3, 1, 4], None);
                    let r = postcard::from_eio::<DynVal, _>((Eio(&mut rd), &mut scratch[..])).map(|(v, _)| v.0);
                    r.map(|v| (v, rd.pos as i64))
                }
                _ => {
                    let mut d = postcard::Deserializer::from_bytes(buf);
                    let v = Seed(s).deserialize(&mut d)?;
                    let rem = d.finalize()?;
                    Ok((v, (n - rem.len()) as i64))
                }
            })
        })
    });
    let (base, blen) = if entry == 2 || entry == 3 { (sbase, slen) } else { (buf.as_ptr(), n) };
    extra["leaves"] = leaves_json(base, blen);
    extra["transient"] = json!(TRANSIENT.with(|t| t.get()));
    extra["hints"] = hints_json();
    extra["avail"] = json!(if entry == 2 || entry == 3 { slen } else { n });
    extra["alloc_peak"] = json!(st.peak);
    extra["alloc_max"] = json!(st.max_request);
    res_json(r)
}

// ----------------------------------------------------------------------------- input families
const ALPHA: [u8; 12] = [0x00, 0x01, 0x02, 0x03, 0x04, 0x7f, 0x80, 0x81, 0x83, 0xfe, 0xff, 0xc3];
fn varint(mut n: u128) -> Vec<u8> {
    // only used to *construct inputs* (adversarial length prefixes); never as an oracle
    let mut o = vec![];
    loop {
        let b = (n & 0x7f) as u8;
        n >>= 7;
        if n != 0 {
            o.push(b | 0x80)
        } else {
            o.push(b);
            return o;
        }
    }
}
fn mutations(r: &mut StdRng, b: &[u8], out: &mut Vec<Vec<u8>>, n_mut: usize) {
    // strict prefixes
    if b.len() <= 24 {
        for c in 0..b.len() {
            out.push(b[..c].to_vec());
        }
    } else {
        for _ in 0..8 {
            out.push(b[..r.gen_range(0..b.len())].to_vec());
        }
        out.push(b[..b.len() - 1].to_vec());
    }
    for _ in 0..n_mut {
        let mut m = b.to_vec();
        for _ in 0..r.gen_range(0..3) {
            m.push(ALPHA[r.gen_range(0..ALPHA.len())]);
        }
        if m.is_empty() {
            continue;
        }
        let j = r.gen_range(0..m.len());
        match r.gen_range(0..10) {
            0..=4 => m[j] = ALPHA[r.gen_range(0..ALPHA.len())],
            5 | 6 => m[j] ^= 1 << r.gen_range(0..8),
            7 => {
                // re-pad a (possible) varint terminator
                if m[j] < 0x80 {
                    m[j] |= 0x80;
                    let k = r.gen_range(1..4);
                    for q in 0..k {
                        m.insert(j + 1 + q, if q + 1 == k { 0 } else { 0x80 });
                    }
                }
            }
            8 => {
                // adversarial length / value prefix
                let big: u128 = match r.gen_range(0..6) {
                    0 => u64::MAX as u128,
                    1 => 1u128 << r.gen_range(7..64),
                    2 => (1u128 << r.gen_range(7..64)) - 1,
                    3 => (m.len() - j) as u128,
                    4 => (m.len() - j + 1) as u128,
                    _ => u64::MAX as u128 + 1,
                };
                let v = varint(big);
                m.splice(j..j + 1, v);
            }
            _ => {
                m.remove(j);
            }
        }
        out.push(m);
    }
    let rnd: Vec<u8> = (0..r.gen_range(0..14)).map(|_| [0u8, 1, 2, 5, 0x80, 0xff, 0xc3, 0xe2, 0x82, 0x61, 0xf0, 0x9f][r.gen_range(0..12)]).collect();
    out.push(rnd);
}

/// structured probes of the varint reader for an integer shape: prefixes of 0x80 / 0xFF / random
/// continuation bytes of every length up to max+1, followed by every interesting final byte
fn first_varint_width(s: &Shape) -> Option<u32> {
    use Shape::*;
    match s {
        Int(k) => Some(k.width()),
        Usize | Isize | Str | Bytes | Char | Seq(_) | Map(..) => Some(64),
        Enum(_) => Some(32),
        NewtypeStruct(t) => first_varint_width(t),
        Tuple(ts) | TupleStruct(ts) => ts.first().and_then(first_varint_width),
        Struct(fs) => fs.first().and_then(|(_, t)| first_varint_width(t)),
        _ => None,
    }
}
fn varint_probes(r: &mut StdRng, width: u32, out: &mut Vec<Vec<u8>>) {
    let maxb = ((width + 6) / 7) as usize;
    for plen in [0, 1, maxb.saturating_sub(2), maxb - 1, maxb, maxb + 1] {
        for fill in 0..3 {
            let pre: Vec<u8> = (0..plen).map(|_| match fill { 0 => 0x80, 1 => 0xff, _ => 0x80 | r.gen::<u8>() }).collect();
            for last in [0x00u8, 0x01, 0x02, 0x03, 0x04, 0x07, 0x0f, 0x10, 0x1f, 0x3f, 0x40, 0x7f, 0x80] {
                let mut m = pre.clone();
                m.push(last);
                m.push(0x55);
                out.push(m);
            }
        }
    }
}

// ----------------------------------------------------------------------------- C02 extras
#[derive(Clone)]
struct RecFlavor(Rc<RefCell<Vec<u8>>>);
impl postcard::ser_flavors::Flavor for RecFlavor {
    type Output = ();
    fn try_push(&mut self, b: u8) -> postcard::Result<()> {
        self.0.borrow_mut().push(b);
        Ok(())
    }
    fn finalize(self) -> postcard::Result<()> {
        Ok(())
    }
}
struct DeclaredLen {
    map: bool,
    n: Option<usize>,
}
impl serde::Serialize for DeclaredLen {
    fn serialize<S: serde::Serializer>(&self, s: S) -> Result<S::Ok, S::Error> {
        use serde::ser::Error;
        if self.map {
            let _m = s.serialize_map(self.n)?;
        } else {
            let _q = s.serialize_seq(self.n)?;
        }
        Err(S::Error::custom("stop after the header"))
    }
}
/// a sequence / map handed over as an iterator (`collect_seq` / `collect_map`): hint 0 = exact size hint,
/// 1 = lower bound 0 with an upper bound (a filter), 2 = no upper bound
struct Collected<'a> {
    map: bool,
    hint: u8,
    items: &'a [u8],
}
struct Hinted<I>(I, u8, usize);
impl<I: Iterator> Iterator for Hinted<I> {
    type Item = I::Item;
    fn next(&mut self) -> Option<I::Item> {
        self.0.next()
    }
    fn size_hint(&self) -> (usize, Option<usize>) {
        match self.1 {
            0 => self.0.size_hint(),
            1 => (0, Some(self.2)),
            _ => (0, None),
        }
    }
}
impl serde::Serialize for Collected<'_> {
    fn serialize<S: serde::Serializer>(&self, s: S) -> Result<S::Ok, S::Error> {
        // hint 1: the upper bound is loose by one or exact by accident - either way the length is not known up front
        let ub = self.items.len() + (self.items.len() % 2);
        if self.map {
            s.collect_map(Hinted(self.items.iter().map(|b| (*b, *b)), self.hint, ub))
        } else {
            s.collect_seq(Hinted(self.items.iter(), self.hint, ub))
        }
    }
}
struct Pieces<'a> {
    pieces: &'a [String],
    fail_at: i64,
    /// how piece i reaches the writer: 0 = write_str, 1 = char by char through Formatter::write_char,
    /// 2 = through `{}` of each char (char's own Display), 3 = `{:>w$}` padding (fill characters are written singly)
    modes: &'a [u8],
}
impl std::fmt::Display for Pieces<'_> {
    fn fmt(&self, f: &mut std::fmt::Formatter<'_>) -> std::fmt::Result {
        for (i, p) in self.pieces.iter().enumerate() {
            if i as i64 == self.fail_at {
                return Err(std::fmt::Error);
            }
            match self.modes.get(i).copied().unwrap_or(0) {
                1 => {
                    for c in p.chars() {
                        std::fmt::Write::write_char(f, c)?;
                    }
                }
                2 => {
                    for c in p.chars() {
                        write!(f, "{}", c)?;
                    }
                }
                _ => f.write_str(p)?,
            }
        }
        if self.fail_at == self.pieces.len() as i64 {
            return Err(std::fmt::Error);
        }
        Ok(())
    }
}
struct Collect<'a>(Pieces<'a>, u8);
impl serde::Serialize for Collect<'_> {
    fn serialize<S: serde::Serializer>(&self, s: S) -> Result<S::Ok, S::Error> {
        use serde::ser::SerializeTuple;
        // embedded in a tuple so that mis-framing shifts what follows
        let mut t = s.serialize_tuple(2)?;
        struct Inner<'b>(&'b Pieces<'b>);
        impl serde::Serialize for Inner<'_> {
            fn serialize<S: serde::Serializer>(&self, s: S) -> Result<S::Ok, S::Error> {
                s.collect_str(self.0)
            }
        }
        t.serialize_element(&Inner(&self.0))?;
        t.serialize_element(&self.1)?;
        t.end()
    }
}
fn c02_extras(r: &mut StdRng, out: &mut Out, n: usize) {
    // declared lengths: every power of two, +-1, up to usize::MAX
    let mut lens: Vec<u64> = vec![0, 1, u64::MAX];
    for k in 1..64 {
        lens.extend([(1u64 << k) - 1, 1u64 << k, (1u64 << k) + 1]);
    }
    for map in [false, true] {
        for &n in &lens {
            let rec = RecFlavor(Default::default());
            let res = catch(|| postcard::serialize_with_flavor(&DeclaredLen { map, n: Some(n as usize) }, rec.clone()));
            let err = match res {
                Ok(Ok(())) => "none".to_string(),
                Ok(Err(e)) => errname(&e).to_string(),
                Err(_p) => "panic".to_string(),
            };
            out.ev(json!({"op":"seqhdr","map":map as u8,"n":jb(&n.to_le_bytes()),"bytes":jb(&rec.0.borrow()),"err":err}));
        }
        let rec = RecFlavor(Default::default());
        let res = catch(|| postcard::serialize_with_flavor(&DeclaredLen { map, n: None }, rec.clone()));
        let err = match res {
            Ok(Ok(())) => "none".to_string(),
            Ok(Err(e)) => errname(&e).to_string(),
            Err(_p) => "panic".to_string(),
        };
        out.ev(json!({"op":"sequnk","map":map as u8,"bytes":jb(&rec.0.borrow()),"err":err}));
        // the same through the iterator entry points, whose length comes from a size hint
        for hint in 0..3u8 {
            for len in [0usize, 1, 2, 3, 127, 128, 129] {
                let items: Vec<u8> = (0..len).map(|_| r.gen()).collect();
                let rec = RecFlavor(Default::default());
                let res = catch(|| postcard::serialize_with_flavor(&Collected { map, hint, items: &items }, rec.clone()));
                let err = match res {
                    Ok(Ok(())) => "none".to_string(),
                    Ok(Err(e)) => errname(&e).to_string(),
                    Err(_p) => "panic".to_string(),
                };
                out.ev(json!({"op":"collected","map":map as u8,"hint":hint,"items":jb(&items),"bytes":jb(&rec.0.borrow()),"err":err}));
            }
        }
    }
    for i in 0..n {
        let np = r.gen_range(0..5);
        let pieces: Vec<String> = (0..np)
            .map(|_| {
                let k = match r.gen_range(0..8) { 0 => 0, 1 => r.gen_range(100..140), _ => r.gen_range(0..4) };
                (0..k).map(|_| if r.gen_range(0..3) == 0 { gen::gchar(r) } else { (b'a' + r.gen_range(0..26)) as char }).collect()
            })
            .collect();
        let fail_at: i64 = if i % 5 == 4 { r.gen_range(0..=np as i64) } else { -1 };
        let follow: u8 = r.gen();
        let modes: Vec<u8> = (0..np).map(|_| r.gen_range(0..3)).collect();
        let c = Collect(Pieces { pieces: &pieces, fail_at, modes: &modes }, follow);
        let res = match catch(|| postcard::to_allocvec(&c)) {
            Ok(Ok(b)) => {
                // C01: what was collected from Display comes back as that string, followed by the next field
                let back = match catch(|| postcard::take_from_bytes::<(String, u8)>(&b).map(|((s, f), rest)| (s, f, rest.len()))) {
                    Ok(Ok((s, f, rest))) => json!({"ok":1,"s":jb(s.as_bytes()),"f":f,"rest":rest}),
                    Ok(Err(e)) => json!({"ok":0,"err":errname(&e)}),
                    Err(p) => json!({"ok":0,"err":"panic","at":p}),
                };
                json!({"ok":1,"bytes":jb(&b),"back":back})
            }
            Ok(Err(e)) => json!({"ok":0,"err":errname(&e)}),
            Err(p) => json!({"ok":0,"err":"panic","at":p}),
        };
        out.ev(json!({"op":"cstr","pieces":pieces.iter().map(|p| jb(p.as_bytes())).collect::<Vec<_>>(),"fail_at":fail_at,"follow":follow,"modes":modes,"res":res}));
    }
}

// ----------------------------------------------------------------------------- refused requests (C04)
struct Refused(u8);
impl<'de> serde::Deserialize<'de> for Refused {
    fn deserialize<D: serde::Deserializer<'de>>(d: D) -> Result<Self, D::Error> {
        let k = WHICH.with(|w| *w.borrow());
        let v = serde::de::IgnoredAny;
        match k {
            0 => d.deserialize_any(v).map(|_| Refused(0)),
            1 => d.deserialize_identifier(v).map(|_| Refused(1)),
            _ => d.deserialize_ignored_any(v).map(|_| Refused(2)),
        }
    }
}
thread_local! { static WHICH: RefCell<u8> = RefCell::new(0); }
fn refused(r: &mut StdRng, out: &mut Out) {
    for k in 0..3u8 {
        for _ in 0..4 {
            let input: Vec<u8> = (0..r.gen_range(0..6)).map(|_| r.gen()).collect();
            WHICH.with(|w| *w.borrow_mut() = k);
            let res = match catch(|| postcard::from_bytes::<Refused>(&input)) {
                Ok(Ok(_)) => json!({"ok":1}),
                Ok(Err(e)) => json!({"ok":0,"err":errname(&e)}),
                Err(p) => json!({"ok":0,"err":"panic","at":p}),
            };
            let which = ["any", "identifier", "ignored_any"][k as usize];
            out.ev(json!({"op":"refused","which":which,"input":jb(&input),"res":res}));
        }
    }
}

// ----------------------------------------------------------------------------- drivers
pub fn run(a: &Args) {
    let n = a.num("n", 100) as usize;
    let seed = a.num("seed", 1);
    let depth = a.num("depth", 3) as u32;
    let n_mut = a.num("mut", 4) as usize;
    let mut r = StdRng::seed_from_u64(seed);
    let mut out = Out::new(&a.str("out", "/dev/stdout"));
    let marker = a.get("marker").map(|s| s.to_string());
    if a.num("extras", 1) == 1 {
        c02_extras(&mut r, &mut out, n / 4 + 8);
        refused(&mut r, &mut out);
    }
    for i in 0..n {
        vcommon::obs::mark_case(&marker, &format!("wire:{seed}:{i}"));
        // every fourth case is a bare leaf so that each integer width gets direct coverage
        let (s, v) = if i % 32 == 17 {
            // containers whose entries occupy no bytes: far more entries than bytes in the message (or in any scratch buffer
            // sized after it), bare and followed by another field
            let (kt, kv) = [(Shape::Unit, Val::Unit), (Shape::UnitStruct, Val::Unit), (Shape::Tuple(vec![]), Val::Seq(vec![]))][r.gen_range(0..3)].clone();
            let k = [1usize, 20, 40, 200][r.gen_range(0..4)];
            let (cs, cv) = if r.gen_range(0..2) == 0 {
                (Shape::Map(Box::new(kt.clone()), Box::new(kt)), Val::Map(vec![(kv.clone(), kv); k]))
            } else {
                (Shape::Seq(Box::new(kt)), Val::Seq(vec![kv; k]))
            };
            if r.gen_range(0..2) == 0 { (cs, cv) } else { (Shape::Tuple(vec![cs, Shape::U8]), Val::Seq(vec![cv, Val::U8(r.gen())])) }
        } else {
            let s = if i % 4 == 0 { gen::leaf_shape(&mut r) } else { gen::gshape(&mut r, depth) };
            let v = gen::gval(&mut r, &s, i % 3 == 0);
            (s, v)
        };
        let ee = i % ENC_ENTRIES.len();
        let de = (i / ENC_ENTRIES.len()) % DEC_ENTRIES.len();
        let tail: Vec<u8> = (0..r.gen_range(0..3)).map(|_| ALPHA[r.gen_range(0..ALPHA.len())]).collect();
        let mut ev = json!({"op":"rt","shape":s.to_json(),"value":v.to_json(),"enc":ENC_ENTRIES[ee],"dec":DEC_ENTRIES[de],"tail":jb(&tail)});
        let bytes = match encode(ee, &s, &v) {
            Ok(b) => b,
            Err(e) => {
                // a too-small fixed buffer is not a verdict on the property: retry with the growable entry
                if e == "BufferFull" && (ee == 0 || ee == 1) {
                    continue;
                }
                ev["enc_err"] = json!(e);
                out.ev(ev);
                continue;
            }
        };
        ev["bytes"] = jb(&bytes);
        let mut input = bytes.clone();
        input.extend(&tail);
        VIA_OWNED.with(|o| o.set(i % 5 == 0));
        let mut extra = json!({});
        ev["res"] = decode(de, &s, &input, (i % 3) as u8, &mut extra);
        ev["via_owned"] = json!((i % 5 == 0) as u8);
        out.ev(ev);
        VIA_OWNED.with(|o| o.set(false));
        if i % 32 == 17 {
            // zero-width containers: a mutated count would ask the specification's decoder for millions of empty elements
            continue;
        }
        // arbitrary inputs derived from this encoding
        let mut inputs = vec![];
        mutations(&mut r, &bytes, &mut inputs, n_mut);
        if let Some(w) = first_varint_width(&s) {
            if i % 8 == 0 || (i % 2 == 0 && !matches!(s, Shape::Int(_))) {
                varint_probes(&mut r, w, &mut inputs);
            }
        }
        for (j, inp) in inputs.iter().enumerate() {
            let de = (i + j) % DEC_ENTRIES.len();
            let side = ((i + j) % 3) as u8;
            let mut ev = json!({"op":"dec","shape":s.to_json(),"input":jb(inp),"dec":DEC_ENTRIES[de],"side":side});
            let mut extra = json!({});
            ev["res"] = decode(de, &s, inp, side, &mut extra);
            ev["leaves"] = extra["leaves"].take();
            ev["transient"] = extra["transient"].take();
            ev["alloc_peak"] = extra["alloc_peak"].take();
            ev["hints"] = extra["hints"].take();
            ev["avail"] = extra["avail"].take();
            out.ev(ev);
        }
    }
    out.flush();
    eprintln!("wire: {} events", out.n);
}

/// exhaustive strings for the 16-bit varint decoders, as batch events (256 outcomes per prefix)
pub fn run_exh16(a: &Args) {
    let seed = a.num("seed", 1);
    let shard = a.num("shard", 0);
    let shards = a.num("shards", 1);
    let full3 = a.num("full3", 0) == 1;
    let n3 = a.num("n3", 1024);
    let n4 = a.num("n4", 256);
    let mut r = StdRng::seed_from_u64(seed ^ 0x1616);
    let mut out = Out::new(&a.str("out", "/dev/stdout"));
    let mut prefixes: Vec<Vec<u8>> = vec![vec![]];
    for x in 0..=255u8 {
        prefixes.push(vec![x]);
    }
    if full3 {
        for x in 0..=255u8 {
            for y in 0..=255u8 {
                prefixes.push(vec![x, y]);
            }
        }
    } else {
        for _ in 0..n3 {
            // bias towards continuation bytes, where the interesting behaviour is
            let x = if r.gen() { 0x80 | r.gen::<u8>() } else { r.gen() };
            let y = if r.gen() { 0x80 | r.gen::<u8>() } else { r.gen() };
            prefixes.push(vec![x, y]);
        }
    }
    for _ in 0..n4 {
        prefixes.push(vec![0x80 | r.gen::<u8>(), 0x80 | r.gen::<u8>(), if r.gen() { 0x80 | r.gen::<u8>() } else { r.gen() }]);
    }
    for (pi, p) in prefixes.iter().enumerate() {
        if pi as u64 % shards != shard {
            continue;
        }
        for k in [IntK::U16, IntK::I16] {
            let s = Shape::Int(k);
            let mut outs = vec![];
            for b in 0..=255u8 {
                let mut inp = p.clone();
                inp.push(b);
                let r = catch(|| with_shape(&s, || postcard::take_from_bytes::<DynVal>(&inp).map(|(v, rem)| (v.0, inp.len() - rem.len()))));
                outs.push(match r {
                    Ok(Ok((v, used))) => json!([1, v.to_json(), used]),
                    Ok(Err(e)) => json!([0, errname(&e)]),
                    Err(p) => json!([0, format!("panic:{p}")]),
                });
            }
            out.ev(json!({"op":"decb","shape":s.to_json(),"prefix":jb(p),"outs":outs}));
        }
    }
    // entire domain of the 16-bit integer encoders (values built from limbs), 256 values per event
    for k in [IntK::U16, IntK::I16] {
        let s = Shape::Int(k);
        for hi in 0..=255u64 {
            if hi % shards != shard {
                continue;
            }
            let mut outs = vec![];
            for lo in 0..=255u64 {
                let v = Val::int(k, (lo | (hi << 8)) as u128);
                let o = catch(|| {
                    let b = postcard::to_allocvec(&SV(&s, &v))?;
                    let (d, rem) = with_shape(&s, || postcard::take_from_bytes::<DynVal>(&b))?;
                    Ok::<_, postcard::Error>((b.clone(), d.0, b.len() - rem.len()))
                });
                outs.push(match o {
                    Ok(Ok((b, d, used))) => json!([jb(&b), d.to_json(), used]),
                    Ok(Err(e)) => json!([errname(&e)]),
                    Err(p) => json!([format!("panic:{p}")]),
                });
            }
            out.ev(json!({"op":"intb","shape":s.to_json(),"hi":hi,"outs":outs}));
        }
    }
    // the char domain in blocks of 256 code points (all blocks, or a sample)
    let nblocks = 0x110000u32 / 256;
    let char_all = a.num("charall", 0) == 1;
    for blk in 0..nblocks {
        if blk as u64 % shards != shard {
            continue;
        }
        let interesting = blk < 9 || (0xd7..=0xe0).contains(&blk) || blk == 0xff || blk == 0x100 || blk == 0x1f6 || blk >= nblocks - 2;
        if !char_all && !interesting && r.gen_range(0..40) != 0 {
            continue;
        }
        let s = Shape::Char;
        let mut outs = vec![];
        for lo in 0..256u32 {
            let cp = blk * 256 + lo;
            match char::from_u32(cp) {
                None => outs.push(json!([])), // not a scalar value (surrogate): no char to encode
                Some(c) => {
                    let v = Val::Char(c);
                    let o = catch(|| {
                        let b = postcard::to_allocvec(&SV(&s, &v))?;
                        let (d, rem) = with_shape(&s, || postcard::take_from_bytes::<DynVal>(&b))?;
                        let back = match d.0 { Val::Char(c2) => c2 as u32 as i64, _ => -1 };
                        Ok::<_, postcard::Error>((b.clone(), back, b.len() - rem.len()))
                    });
                    outs.push(match o {
                        Ok(Ok((b, back, used))) => json!([jb(&b), back, used]),
                        Ok(Err(e)) => json!([errname(&e)]),
                        Err(p) => json!([format!("panic:{p}")]),
                    });
                }
            }
        }
        out.ev(json!({"op":"charb","blk":blk,"outs":outs}));
    }
    out.flush();
    eprintln!("exh16: {} batch events", out.n);
}

/// replay vectors produced by TLC (one JSON object per line: {shape, value, encs:[..]}): encode with every
/// encode entry and decode every accepted encoding with every decode entry; emits ordinary rt/dec events
pub fn run_vectors(a: &Args) {
    let inp = std::fs::read_to_string(a.get("in").expect("--in")).expect("read vectors");
    let mut out = Out::new(&a.str("out", "/dev/stdout"));
    for (li, line) in inp.lines().enumerate() {
        if line.trim().is_empty() {
            continue;
        }
        let j: J = serde_json::from_str(line).expect("vector json");
        let s = Shape::from_json(&j["shape"]);
        let v = Val::from_json(&s, &j["value"]);
        for ee in 0..ENC_ENTRIES.len() {
            let de = (li + ee) % DEC_ENTRIES.len();
            let mut ev = json!({"op":"rt","shape":s.to_json(),"value":v.to_json(),"enc":ENC_ENTRIES[ee],"dec":DEC_ENTRIES[de],"tail":jb(&[])});
            match encode(ee, &s, &v) {
                Ok(b) => {
                    ev["bytes"] = jb(&b);
                    let mut extra = json!({});
                    ev["res"] = decode(de, &s, &b, 0, &mut extra);
                }
                Err(e) => ev["enc_err"] = json!(e),
            }
            ev["via_owned"] = json!(0);
            out.ev(ev);
        }
        if let Some(encs) = j["encs"].as_array() {
            for (k, e) in encs.iter().enumerate() {
                let inp: Vec<u8> = e.as_array().unwrap().iter().map(|x| x.as_u64().unwrap() as u8).collect();
                let de = (li + k) % DEC_ENTRIES.len();
                let mut ev = json!({"op":"dec","shape":s.to_json(),"input":jb(&inp),"dec":DEC_ENTRIES[de],"side":0});
                let mut extra = json!({});
                ev["res"] = decode(de, &s, &inp, 0, &mut extra);
                ev["leaves"] = extra["leaves"].take();
                ev["transient"] = extra["transient"].take();
                ev["alloc_peak"] = extra["alloc_peak"].take();
                out.ev(ev);
            }
        }
    }
    out.flush();
    eprintln!("wire-vec: {} events", out.n);
}
