//! h_core: drivers and replayers for the postcard crate (C01-C11, C13, C20).
//! Every subcommand writes ndjson events; no expected value is computed here.
mod acc;
mod big_enum;
mod common;
mod corpus;
mod depipe;
mod fix;
mod framede;
mod io;
mod replay;
#[macro_use]
mod ser;
mod transport;
mod wire;

use std::collections::HashMap;

pub struct Args(HashMap<String, String>);
impl Args {
    pub fn get(&self, k: &str) -> Option<&str> {
        self.0.get(k).map(|s| s.as_str())
    }
    pub fn num(&self, k: &str, d: u64) -> u64 {
        self.get(k).map(|s| s.parse().expect("number")).unwrap_or(d)
    }
    pub fn str(&self, k: &str, d: &str) -> String {
        self.get(k).unwrap_or(d).to_string()
    }
}

fn main() {
    let mut a = std::env::args().skip(1);
    let cmd = a.next().expect("subcommand");
    let mut m = HashMap::new();
    let rest: Vec<String> = a.collect();
    let mut i = 0;
    while i < rest.len() {
        let k = rest[i].trim_start_matches("--").to_string();
        let v = rest.get(i + 1).cloned().unwrap_or_default();
        m.insert(k, v);
        i += 2;
    }
    let args = Args(m);
    vcommon::obs::install_panic_hook();
    match cmd.as_str() {
        "wire" => wire::run(&args),
        "wire-exh16" => wire::run_exh16(&args),
        "wire-vec" => wire::run_vectors(&args),
        "fix" => fix::run(&args),
        "corpus" => corpus::run(&args),
        "ser" => ser::run(&args),
        "depipe" => depipe::run(&args),
        "io" => io::run(&args),
        "replay" => replay::run(&args),
        "cobs-de" => framede::run_cobs(&args),
        "crc-de" => framede::run_crc(&args),
        "acc-edges" => acc::run_edges(&args),
        "acc-stream" => acc::run_streams(&args),
        "acc-link" => acc::run_link(&args),
        _ => panic!("unknown subcommand {cmd}"),
    }
}
