//! h_schema_alloc: the `conform` driver of h_schema for the alloc-only configuration of postcard-schema
//! (`--features alloc` without `use-std`), where `impls/builtins_alloc.rs` provides the Schema of Vec, String,
//! BTreeMap and BTreeSet. Same event format as `h_schema conform` (C14, C16).
use postcard_schema::key::Key;
use postcard_schema::Schema;
use rand::{rngs::StdRng, Rng, SeedableRng};
use serde::Serialize;
use serde_json::json;
use std::collections::{BTreeMap, BTreeSet};
use std::io::Write;
use vcommon::obs::catch;
use vcommon::stree::{b, bt};
use vcommon::tree::call_tree;

struct W(std::io::BufWriter<std::fs::File>, u64);
fn emit<T: Schema + Serialize + ?Sized>(out: &mut W, ty: &str, v: &T) {
    let path = format!("corpus-alloc/{ty}");
    let r = catch(|| {
        let tree = call_tree(v).map_err(|e| e.0);
        let bytes = postcard::to_allocvec(v).map_err(|e| format!("{e:?}"));
        (tree, bytes)
    });
    let mut ev = json!({"op":"conform","ty":ty,"schema":bt(T::SCHEMA),"path":b(&path),"key_type":Key::for_path::<T>(&path).to_bytes()});
    match r {
        Ok((tree, bytes)) => {
            ev["tree"] = tree.unwrap_or_else(|e| json!({"c":"error","msg":e}));
            ev["bytes"] = bytes.map(|x| json!(x)).unwrap_or_else(|e| json!({"err":e}));
        }
        Err(p) => ev["panic"] = json!(p),
    }
    writeln!(out.0, "{}", ev).unwrap();
    out.1 += 1;
}

#[derive(Serialize, Schema)]
struct Holder {
    names: Vec<String>,
    by_id: BTreeMap<u16, String>,
    seen: BTreeSet<i8>,
    nested: BTreeMap<String, BTreeMap<u8, Vec<bool>>>,
}
#[derive(Serialize, Schema)]
enum Msg {
    Text(String),
    Table(BTreeMap<String, u64>),
    Many { items: Vec<(u8, String)>, tags: BTreeSet<String> },
}

fn run(seed: u64, reps: u64, outp: &str) {
    let mut r = StdRng::seed_from_u64(seed ^ 0xa110c);
    let mut out = W(std::io::BufWriter::new(std::fs::File::create(outp).unwrap()), 0);
    let o = &mut out;
    for _ in 0..reps {
        emit(o, "String", &String::from("héllo"));
        emit(o, "Vec<u8>", &vec![r.gen::<u8>(), 2, 3]);
        emit(o, "Vec<String>", &vec![String::from("a"), String::new()]);
        emit(o, "Vec<Vec<u16>>", &vec![vec![r.gen::<u16>()], vec![], vec![2, 3]]);
        emit(o, "Vec<()>", &vec![(), ()]);
        emit(o, "Vec<Option<String>>", &vec![None, Some(String::from("x"))]);
        emit(o, "BTreeSet<i32>", &[r.gen::<i32>(), 7, -7].into_iter().collect::<BTreeSet<i32>>());
        emit(o, "BTreeSet<String>", &["b".to_string(), "a".to_string()].into_iter().collect::<BTreeSet<String>>());
        emit(o, "BTreeMap<u8,String>", &[(r.gen::<u8>(), "one".to_string())].into_iter().collect::<BTreeMap<_, _>>());
        emit(o, "BTreeMap<String,u64>", &[("k".to_string(), r.gen::<u64>()), ("l".to_string(), 0)].into_iter().collect::<BTreeMap<_, _>>());
        emit(o, "BTreeMap<String,Vec<u8>>", &[("k".to_string(), vec![1u8]), ("l".to_string(), vec![])].into_iter().collect::<BTreeMap<_, _>>());
        emit(o, "BTreeMap<u16,(bool,i64)>", &[(r.gen::<u16>(), (true, r.gen::<i64>()))].into_iter().collect::<BTreeMap<_, _>>());
        emit(o, "BTreeMap<(),u8>", &[((), 9u8)].into_iter().collect::<BTreeMap<_, _>>());
        emit(o, "BTreeMap<u8,BTreeMap<i16,String>>", &[(1u8, [(-3i16, "x".to_string())].into_iter().collect::<BTreeMap<_, _>>())].into_iter().collect::<BTreeMap<_, _>>());
        emit(o, "Option<Vec<u32>>", &Some(vec![r.gen::<u32>()]));
        emit(o, "(String,Vec<bool>)", &(String::from("t"), vec![true, false]));
        emit(o, "[Vec<u8>;2]", &[vec![1u8], vec![]]);
        emit(
            o,
            "Holder",
            &Holder {
                names: vec!["n".into()],
                by_id: [(r.gen::<u16>(), "v".to_string())].into_iter().collect(),
                seen: [r.gen::<i8>(), 0].into_iter().collect(),
                nested: [("o".to_string(), [(1u8, vec![true])].into_iter().collect())].into_iter().collect(),
            },
        );
        emit(o, "Msg::Text", &Msg::Text("t".into()));
        emit(o, "Msg::Table", &Msg::Table([("k".to_string(), r.gen::<u64>())].into_iter().collect()));
        emit(o, "Msg::Many", &Msg::Many { items: vec![(r.gen(), "i".into())], tags: ["t".to_string()].into_iter().collect() });
    }
    out.0.flush().unwrap();
    eprintln!("conform(alloc): {} events", out.1);
}

fn main() {
    let a: Vec<String> = std::env::args().skip(1).collect();
    let get = |k: &str, d: &str| a.iter().position(|x| x == k).and_then(|i| a.get(i + 1)).cloned().unwrap_or(d.to_string());
    vcommon::obs::install_panic_hook();
    match a.first().map(|s| s.as_str()) {
        Some("conform") => run(get("--seed", "1").parse().unwrap(), get("--reps", "3").parse().unwrap(), &get("--out", "/dev/stdout")),
        Some("replay") => {
            // events are regenerated and matched by type name and variant
            let inp = std::fs::read_to_string(get("--in", "")).expect("read");
            let outp = get("--out", "/dev/stdout");
            let tmp = format!("{outp}.all");
            run(1, 1, &tmp);
            let all = std::fs::read_to_string(&tmp).unwrap();
            let _ = std::fs::remove_file(&tmp);
            let mut lines = vec![];
            for line in inp.lines().filter(|l| !l.trim().is_empty()) {
                let e: serde_json::Value = serde_json::from_str(line).expect("json");
                let hit = all.lines().find(|l| serde_json::from_str::<serde_json::Value>(l).map(|x| x["ty"] == e["ty"]).unwrap_or(false));
                lines.push(hit.map(|s| s.to_string()).unwrap_or(line.to_string()));
            }
            std::fs::write(outp, lines.join("\n") + "\n").unwrap();
        }
        _ => panic!("usage: h_schema_alloc conform|replay ..."),
    }
}
