//! C17 on concrete Rust types: "the type's schema" is `T::SCHEMA` itself (built-in implementations and the derive),
//! the JSON form is whatever `serde_json::to_value` returns. One `dyn_t` event per (type, value); the specification
//! parses the static bytes under the schema to obtain the value it reasons about (scope, expected JSON).
use crate::{dec, dynres_bytes, dynres_json, enc, js};
use postcard_schema::schema::owned::OwnedDataModelType;
use postcard_schema::Schema;
use rand::{rngs::StdRng, Rng};
use serde::Serialize;
use serde_json::json;
use std::collections::{BTreeMap, BTreeSet, HashMap, HashSet};
use std::num::*;
use vcommon::stree::bt;
use vcommon::tree::call_tree;

pub fn emit<T: Schema + Serialize + ?Sized>(out: &mut Vec<String>, ty: &str, v: &T) {
    let static_bytes = match postcard::to_allocvec(v) {
        Ok(b) => b,
        Err(_) => return,
    };
    let jv = match serde_json::to_value(v) {
        Ok(j) => j,
        Err(_) => return,
    };
    let tree = call_tree(v).map_err(|e| e.0).unwrap_or_else(|e| json!({"c":"error","msg":e}));
    let schema: OwnedDataModelType = T::SCHEMA.into();
    let dyn_bytes = dynres_bytes(enc(&schema, &jv));
    let dyn_json = dynres_json(dec(&schema, &static_bytes));
    out.push(json!({"op":"dyn_t","ty":ty,"schema":bt(T::SCHEMA),"tree":tree,"static_bytes":static_bytes,"json":js(&jv),"dyn_bytes":dyn_bytes,"dyn_json":dyn_json}).to_string());
}

#[derive(Serialize, Schema)]
struct Unordered {
    zeta: u8,
    alpha: u16,
    mid: Option<String>,
}
#[derive(Serialize, Schema)]
struct Pair(u8, String);
#[derive(Serialize, Schema)]
struct Wrapper(u32);
#[derive(Serialize, Schema)]
struct Marker;
#[derive(Serialize, Schema)]
enum Shape {
    Dot,
    Circle(u16),
    Rect { zeta: u8, alpha: u8 },
    Line(i8, i8),
    Named { name: String, id: u32, flag: bool },
}
#[derive(Serialize, Schema)]
struct EmptyTuple();
#[derive(Serialize, Schema)]
struct EmptyNamed {}
#[derive(Serialize, Schema)]
enum Cmd {
    Flush(),
    Stop {},
    Go,
}
#[derive(Serialize, Schema)]
struct Outer {
    shapes: Vec<Shape>,
    by_name: BTreeMap<String, Unordered>,
    pair: Pair,
    w: Wrapper,
    m: Marker,
    nz: NonZeroU64,
}

pub fn run(r: &mut StdRng, out: &mut Vec<String>) {
    // integers of every width at the width's extremes (128-bit ones within what JSON numbers hold)
    emit(out, "u8", &r.gen::<u8>());
    emit(out, "i8", &r.gen::<i8>());
    emit(out, "u16", &u16::MAX);
    emit(out, "i16", &i16::MIN);
    emit(out, "u32", &u32::MAX);
    emit(out, "i32", &i32::MIN);
    emit(out, "u64", &u64::MAX);
    emit(out, "i64", &i64::MIN);
    emit(out, "u128", &(u64::MAX as u128));
    emit(out, "i128", &(i64::MIN as i128));
    emit(out, "i128", &(u64::MAX as i128));
    emit(out, "NonZeroU8", &NonZeroU8::new(255).unwrap());
    emit(out, "NonZeroI8", &NonZeroI8::new(-128).unwrap());
    emit(out, "NonZeroU16", &NonZeroU16::new(u16::MAX).unwrap());
    emit(out, "NonZeroI16", &NonZeroI16::new(i16::MIN).unwrap());
    emit(out, "NonZeroU32", &NonZeroU32::new(u32::MAX).unwrap());
    emit(out, "NonZeroI32", &NonZeroI32::new(i32::MIN).unwrap());
    emit(out, "NonZeroU64", &NonZeroU64::new(u64::MAX).unwrap());
    emit(out, "NonZeroU64", &NonZeroU64::new(1u64 << 32).unwrap());
    emit(out, "NonZeroI64", &NonZeroI64::new(i64::MIN).unwrap());
    emit(out, "NonZeroU128", &NonZeroU128::new(u64::MAX as u128).unwrap());
    emit(out, "NonZeroI128", &NonZeroI128::new(i64::MIN as i128).unwrap());
    emit(out, "bool", &r.gen::<bool>());
    emit(out, "f32", &1.5f32);
    emit(out, "f32", &f32::MAX);
    emit(out, "f64", &-0.1f64);
    emit(out, "char", &['a', 'é', '€', '😀'][r.gen_range(0..4)]);
    emit(out, "()", &());
    emit::<str>(out, "str", "héllo");
    emit(out, "String", &String::from("owned"));
    emit(out, "&[u8]", &&[1u8, 2, 255][..]);
    emit(out, "Vec<u8>", &vec![0u8, 128, 255]);
    emit(out, "Vec<String>", &vec![String::from("a"), String::new()]);
    emit(out, "Vec<()>", &vec![(), (), ()]);
    emit(out, "[u16;3]", &[r.gen::<u16>(), 2, 3]);
    emit(out, "[u8;0]", &[0u8; 0]);
    emit(out, "(u8,)", &(r.gen::<u8>(),));
    emit(out, "(u8,u16)", &(r.gen::<u8>(), r.gen::<u16>()));
    emit(out, "(u8,String,bool)", &(1u8, String::from("x"), true));
    emit(out, "Option<u8>", &Some(r.gen::<u8>()));
    emit(out, "Option<u8>", &Option::<u8>::None);
    emit(out, "Option<String>", &Some(String::from("s")));
    emit(out, "Option<Option<u8>>", &Some(Some(r.gen::<u8>())));
    emit(out, "Result<u8,String>", &Result::<u8, String>::Ok(3));
    emit(out, "Result<u8,String>", &Result::<u8, String>::Err("bad".into()));
    emit(out, "BTreeMap<String,u32>", &[("k".to_string(), r.gen::<u32>()), ("l".to_string(), 0)].into_iter().collect::<BTreeMap<_, _>>());
    emit(out, "HashMap<String,Vec<u8>>", &[("only".to_string(), vec![1u8])].into_iter().collect::<HashMap<_, _>>());
    emit(out, "BTreeSet<i32>", &[r.gen::<i32>(), 7, -7].into_iter().collect::<BTreeSet<i32>>());
    emit(out, "HashSet<u8>", &[9u8].into_iter().collect::<HashSet<u8>>());
    emit(out, "&&u32", &&&5u32);
    emit(out, "Range<u8>", &(1u8..9));
    emit(out, "RangeInclusive<i16>", &(-3i16..=9));
    emit(out, "Unordered", &Unordered { zeta: r.gen(), alpha: r.gen(), mid: Some("m".into()) });
    emit(out, "Unordered", &Unordered { zeta: 0, alpha: 0, mid: None });
    emit(out, "Pair", &Pair(r.gen(), "p".into()));
    emit(out, "Wrapper", &Wrapper(r.gen()));
    emit(out, "Marker", &Marker);
    emit(out, "EmptyTuple", &EmptyTuple());
    emit(out, "EmptyNamed", &EmptyNamed {});
    emit(out, "Cmd::Flush", &Cmd::Flush());
    emit(out, "Cmd::Stop", &Cmd::Stop {});
    emit(out, "Cmd::Go", &Cmd::Go);
    emit(out, "Vec<Cmd>", &vec![Cmd::Go, Cmd::Flush(), Cmd::Stop {}]);
    emit(out, "RangeFrom<u8>", &(3u8..));
    emit(out, "RangeTo<u16>", &(..7u16));
    emit(out, "Shape::Dot", &Shape::Dot);
    emit(out, "Shape::Circle", &Shape::Circle(r.gen()));
    emit(out, "Shape::Rect", &Shape::Rect { zeta: 1, alpha: 2 });
    emit(out, "Shape::Line", &Shape::Line(-1, 1));
    emit(out, "Shape::Named", &Shape::Named { name: "n".into(), id: r.gen(), flag: true });
    emit(
        out,
        "Outer",
        &Outer {
            shapes: vec![Shape::Dot, Shape::Rect { zeta: r.gen(), alpha: 0 }, Shape::Named { name: String::new(), id: 0, flag: false }],
            by_name: [("b".to_string(), Unordered { zeta: 1, alpha: 2, mid: None }), ("a".to_string(), Unordered { zeta: 3, alpha: 4, mid: Some(String::new()) })].into_iter().collect(),
            pair: Pair(0, String::new()),
            w: Wrapper(u32::MAX),
            m: Marker,
            nz: NonZeroU64::new(u64::MAX).unwrap(),
        },
    );
}
