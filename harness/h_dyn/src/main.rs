//! h_dyn: drivers for postcard-dyn (C17 agreement with the static codec and serde_json, C18 totality).
mod corpus;
use postcard_dyn::{from_slice_dyn, to_stdvec_dyn};
use postcard_schema::schema::owned::OwnedDataModelType;
use rand::{rngs::StdRng, Rng, SeedableRng};
use serde_json::{json, Value as J};
use std::collections::HashMap;
use std::io::Write;
use vcommon::gen;
use vcommon::obs::{catch, measure};
use vcommon::stree::{self, D, T};
use vcommon::val::*;

pub struct Args(HashMap<String, String>);
impl Args {
    pub fn get(&self, k: &str) -> Option<&str> {
        self.0.get(k).map(|s| s.as_str())
    }
    pub fn num(&self, k: &str, d: u64) -> u64 {
        self.get(k).map(|s| s.parse().expect("number")).unwrap_or(d)
    }
    pub fn str(&self, k: &str, d: &str) -> String {
        self.get(k).unwrap_or(d).to_string()
    }
}

/// structural rendering of a serde_json::Value (numbers as exact limbs / bit patterns, strings as bytes,
/// objects as ordered pair lists)
fn js(v: &J) -> J {
    match v {
        J::Null => json!({"t":"null"}),
        J::Bool(b) => json!({"t":"bool","v":*b as u8}),
        J::Number(n) => {
            if let Some(u) = n.as_u64() {
                json!({"t":"u","v":u.to_le_bytes().to_vec()})
            } else if let Some(i) = n.as_i64() {
                json!({"t":"i","v":i.to_le_bytes().to_vec()})
            } else {
                let f = n.as_f64().unwrap();
                let narrow = f as f32;
                json!({"t":"f","v":f.to_bits().to_le_bytes().to_vec(),"n":narrow.to_bits().to_le_bytes().to_vec(),"exact":((narrow as f64) == f) as u8})
            }
        }
        J::String(s) => json!({"t":"s","v":s.as_bytes()}),
        J::Array(a) => json!({"t":"a","v":a.iter().map(js).collect::<Vec<_>>()}),
        J::Object(o) => json!({"t":"o","v":o.iter().map(|(k, v)| json!([k.as_bytes(), js(v)])).collect::<Vec<_>>()}),
    }
}

/// the schema tree a derive would produce for a shape (serde conventions)
fn schema_of(s: &Shape) -> Option<T> {
    use Shape as S;
    let p = |k: &'static str| Some(T::Prim(k));
    let all = |ts: &[Shape]| ts.iter().map(schema_of).collect::<Option<Vec<_>>>();
    let fields = |fs: &[(String, Shape)]| fs.iter().map(|(n, t)| schema_of(t).map(|x| (n.clone(), x))).collect::<Option<Vec<_>>>();
    match s {
        S::Bool => p("Bool"),
        S::U8 => p("U8"),
        S::I8 => p("I8"),
        S::Int(k) => p(match k { IntK::U16 => "U16", IntK::I16 => "I16", IntK::U32 => "U32", IntK::I32 => "I32", IntK::U64 => "U64", IntK::I64 => "I64", IntK::U128 => "U128", IntK::I128 => "I128" }),
        S::Usize => p("Usize"),
        S::Isize => p("Isize"),
        S::F32 => p("F32"),
        S::F64 => p("F64"),
        S::Char => p("Char"),
        S::Str => p("String"),
        S::Bytes => p("ByteArray"),
        S::Unit => p("Unit"),
        S::Fix(..) => None,
        S::Opt(t) => Some(T::Option(Box::new(schema_of(t)?))),
        S::UnitStruct => Some(T::Struct("US".into(), D::Unit)),
        S::NewtypeStruct(t) => Some(T::Struct("NS".into(), D::Newtype(Box::new(schema_of(t)?)))),
        S::Seq(t) => Some(T::Seq(Box::new(schema_of(t)?))),
        S::Tuple(ts) => Some(T::Tuple(all(ts)?)),
        S::TupleStruct(ts) => Some(T::Struct("TS".into(), D::Tuple(all(ts)?))),
        S::Map(k, v) => Some(T::Map(Box::new(schema_of(k)?), Box::new(schema_of(v)?))),
        S::Struct(fs) => Some(T::Struct("ST".into(), D::Struct(fields(fs)?))),
        S::Enum(vs) => Some(T::Enum(
            "EN".into(),
            vs.iter()
                .map(|(n, d)| {
                    Some((n.clone(), match d {
                        Data::Unit => D::Unit,
                        Data::Newtype(t) => D::Newtype(Box::new(schema_of(t)?)),
                        Data::Tuple(ts) => D::Tuple(all(ts)?),
                        Data::Struct(fs) => D::Struct(fields(fs)?),
                    }))
                })
                .collect::<Option<Vec<_>>>()?,
        )),
    }
}
fn dynres_bytes(r: Result<Result<Vec<u8>, postcard_dyn_err::E>, String>) -> J {
    match r {
        Ok(Ok(b)) => json!({"ok":1,"bytes":b}),
        Ok(Err(e)) => json!({"ok":0,"err":e.0}),
        Err(p) => json!({"ok":0,"err":"panic","at":p}),
    }
}
fn dynres_json(r: Result<Result<J, postcard_dyn_err::E>, String>) -> J {
    match r {
        Ok(Ok(v)) => json!({"ok":1,"json":js(&v)}),
        Ok(Err(e)) => json!({"ok":0,"err":e.0}),
        Err(p) => json!({"ok":0,"err":"panic","at":p}),
    }
}
mod postcard_dyn_err {
    pub struct E(pub String);
}
fn enc(schema: &OwnedDataModelType, v: &J) -> Result<Result<Vec<u8>, postcard_dyn_err::E>, String> {
    catch(|| to_stdvec_dyn(schema, v).map_err(|e| postcard_dyn_err::E(format!("{e:?}"))))
}
fn dec(schema: &OwnedDataModelType, b: &[u8]) -> Result<Result<J, postcard_dyn_err::E>, String> {
    catch(|| from_slice_dyn(schema, b).map_err(|e| postcard_dyn_err::E(format!("{e:?}"))))
}

/// C17: shape/value -> static bytes, serde_json value, dynamic bytes, dynamic value
fn zero_width_case(r: &mut StdRng) -> (Shape, Val) {
    use Shape as S;
    let elems: [(S, Val); 5] = [
        (S::Unit, Val::Unit),
        (S::UnitStruct, Val::Unit),
        (S::Tuple(vec![]), Val::Seq(vec![])),
        (S::Struct(vec![]), Val::Seq(vec![])),
        (S::Tuple(vec![S::Unit, S::UnitStruct]), Val::Seq(vec![Val::Unit, Val::Unit])),
    ];
    let (es, ev) = elems[r.gen_range(0..elems.len())].clone();
    let k = r.gen_range(1..=6);
    let seq = (S::Seq(Box::new(es.clone())), Val::Seq(vec![ev.clone(); k]));
    match r.gen_range(0..4) {
        0 => seq,
        1 => (S::Tuple(vec![seq.0, S::U8]), Val::Seq(vec![seq.1, Val::U8(r.gen())])),
        2 => (S::Struct(vec![("seen".into(), seq.0), ("last".into(), S::U8)]), Val::Seq(vec![seq.1, Val::U8(r.gen())])),
        _ => {
            // string-keyed map with zero-width values, keys ascending
            let mut keys: Vec<Vec<u8>> = (0..k).map(|j| vec![b'a' + j as u8]).collect();
            keys.sort();
            (S::Map(Box::new(S::Str), Box::new(es)), Val::Map(keys.into_iter().map(|kk| (Val::Str(kk), ev.clone())).collect()))
        }
    }
}

/// strings, sequences and maps whose element count sits on a varint length boundary (1/2/3-byte prefixes)
fn length_boundary_case(r: &mut StdRng, k: u64, big: bool) -> (Shape, Val) {
    use Shape as S;
    const LENS: [usize; 6] = [127, 128, 129, 16383, 16384, 16385];
    // one long case per run (costly to validate), the others on the one/two-byte boundary
    let l = if big { LENS[3 + (k % 3) as usize] } else { LENS[(k % 3) as usize] };
    match (k / 3) % 3 {
        0 => (S::Str, Val::Str((0..l).map(|_| b'a' + r.gen_range(0..26)).collect())),
        1 => (S::Seq(Box::new(S::U8)), Val::Seq((0..l).map(|_| Val::U8(r.gen())).collect())),
        _ => {
            let l = l.min(129); // maps: keys must be distinct strings in ascending order
            let keys: Vec<Vec<u8>> = (0..l).map(|j| format!("k{j:05}").into_bytes()).collect();
            (S::Map(Box::new(S::Str), Box::new(S::Bool)), Val::Map(keys.into_iter().map(|kk| (Val::Str(kk), Val::Bool(r.gen()))).collect()))
        }
    }
}

fn run_agree(a: &Args) {
    let n = a.num("n", 100);
    let seed = a.num("seed", 1);
    let mut r = StdRng::seed_from_u64(seed ^ 0xd7);
    let mut out = std::io::BufWriter::new(std::fs::File::create(a.str("out", "/dev/stdout")).unwrap());
    let marker = a.get("marker").map(|s| s.to_string());
    let mut cnt = 0u64;
    for i in 0..n {
        vcommon::obs::mark_case(&marker, &format!("dyn:{seed}:{i}"));
        // every 8th case: sequences and maps whose elements occupy no bytes on the wire (more elements than bytes
        // left in the input), bare, last in a struct and followed by another field
        let directed = if i % 8 == 5 { Some(zero_width_case(&mut r)) } else if i % 16 == 3 { Some(length_boundary_case(&mut r, seed * 7 + i / 16, i == 3)) } else { None };
        let (s, tree) = loop {
            let s = if let Some((s, _)) = &directed { s.clone() } else if i % 4 == 0 { gen::leaf_shape(&mut r) } else { gen::gshape(&mut r, 3) };
            if let Some(t) = schema_of(&s) {
                break (s, t);
            }
        };
        let v = if let Some((_, v)) = directed { v } else { gen::gval(&mut r, &s, false) };
        let sv = SV(&s, &v);
        let static_bytes = match postcard::to_allocvec(&sv) {
            Ok(b) => b,
            Err(_) => continue,
        };
        let jv = match serde_json::to_value(&sv) {
            Ok(j) => j,
            // serde_json refuses non-string map keys: such values have no JSON form at all (outside the quantifier)
            Err(_) => continue,
        };
        let schema: OwnedDataModelType = stree::lt(&tree).into();
        let dyn_bytes = dynres_bytes(enc(&schema, &jv));
        let dyn_json = dynres_json(dec(&schema, &static_bytes));
        writeln!(out, "{}", json!({"op":"dyn","shape":s.to_json(),"value":v.to_json(),"schema":stree::tj(&tree),"static_bytes":static_bytes,
                                   "json":js(&jv),"dyn_bytes":dyn_bytes,"dyn_json":dyn_json})).unwrap();
        cnt += 1;
    }
    // concrete Rust types under their own T::SCHEMA
    for _ in 0..a.num("corpus", 2) {
        let mut lines = vec![];
        corpus::run(&mut r, &mut lines);
        for l in lines {
            writeln!(out, "{l}").unwrap();
            cnt += 1;
        }
    }
    out.flush().unwrap();
    eprintln!("dyn: {cnt} events");
}

// ---------------------------------------------------------------- C18
fn gjson_for(r: &mut StdRng, t: &T, depth: u32) -> J {
    // type-correct JSON for a schema (the shape the decoder itself would produce), with occasional near misses
    let miss = r.gen_range(0..25) == 0;
    if miss {
        return match r.gen_range(0..6) {
            0 => J::Null,
            1 => json!(r.gen::<u64>()),
            2 => json!(-(r.gen::<i64>().abs())),
            3 => json!(1.5),
            4 => json!("x"),
            _ => json!([1, "a", null]),
        };
    }
    let data = |r: &mut StdRng, d: &D, depth: u32| -> J {
        match d {
            D::Unit => J::Null,
            D::Newtype(t) => gjson_for(r, t, depth),
            D::Tuple(ts) => {
                if ts.len() == 1 && r.gen() {
                    gjson_for(r, &ts[0], depth)
                } else {
                    J::Array(ts.iter().map(|t| gjson_for(r, t, depth)).collect())
                }
            }
            D::Struct(fs) => J::Object(fs.iter().map(|(n, t)| (n.clone(), gjson_for(r, t, depth))).collect()),
        }
    };
    match t {
        T::Prim(k) => match *k {
            "Bool" => json!(r.gen::<bool>()),
            "I8" => json!(r.gen::<i8>()),
            "U8" => json!(r.gen::<u8>()),
            "I16" => json!(r.gen::<i16>()),
            "U16" => json!(r.gen::<u16>()),
            "I32" => json!(r.gen::<i32>()),
            "U32" => json!(r.gen::<u32>()),
            "I64" | "Isize" | "I128" => json!(if r.gen() { r.gen::<i64>() } else { gen::bits(r, 64) as i64 }),
            "U64" | "Usize" | "U128" => json!(if r.gen() { r.gen::<u64>() } else { gen::bits(r, 64) as u64 }),
            "F32" => match r.gen_range(0..8) {
                0 => json!(f64::from_bits(r.gen::<u64>() & 0x7fef_ffff_ffff_ffff)), // not representable as f32, maybe out of range
                1 => json!(3.5e38),
                _ => json!(f32::from_bits(r.gen::<u32>() & 0x7f7f_ffff) as f64),
            },
            "F64" => json!(f64::from_bits(r.gen::<u64>() & 0x7fef_ffff_ffff_ffff)),
            "Char" => match r.gen_range(0..8) {
                0 => json!(""),
                1 => json!(format!("{}{}", gen::gchar(r), gen::gchar(r))),
                _ => json!(gen::gchar(r).to_string()),
            },
            "String" => json!(String::from_utf8(gen::gstr(r, false)).unwrap()),
            "ByteArray" => J::Array((0..r.gen_range(0..5)).map(|_| json!(r.gen::<u8>())).collect()),
            "Unit" => J::Null,
            _ => json!("Schema"),
        },
        T::Option(x) => if r.gen_range(0..3) == 0 { J::Null } else { gjson_for(r, x, depth) },
        T::Seq(x) => J::Array((0..r.gen_range(0..4)).map(|_| gjson_for(r, x, depth.saturating_sub(1))).collect()),
        T::Tuple(ts) => J::Array(ts.iter().map(|t| gjson_for(r, t, depth)).collect()),
        T::Map(_, v) => J::Object((0..r.gen_range(0..3)).map(|i| (format!("k{i}"), gjson_for(r, v, depth))).collect()),
        T::Struct(_, d) => data(r, d, depth),
        T::Enum(_, vs) => {
            if vs.is_empty() {
                return json!("none");
            }
            let (n, d) = &vs[r.gen_range(0..vs.len())];
            match d {
                D::Unit => json!(n),
                _ => J::Object([(n.clone(), data(r, d, depth))].into_iter().collect()),
            }
        }
    }
}
fn schema_size(t: &T) -> usize {
    let dsz = |d: &D| match d {
        D::Unit => 1,
        D::Newtype(t) => 1 + schema_size(t),
        D::Tuple(ts) => 1 + ts.iter().map(schema_size).sum::<usize>(),
        D::Struct(fs) => 1 + fs.iter().map(|(n, t)| n.len() + 1 + schema_size(t)).sum::<usize>(),
    };
    match t {
        T::Prim(_) => 1,
        T::Option(x) | T::Seq(x) => 1 + schema_size(x),
        T::Tuple(ts) => 1 + ts.iter().map(schema_size).sum::<usize>(),
        T::Map(k, v) => 1 + schema_size(k) + schema_size(v),
        T::Struct(n, d) => 1 + n.len() + dsz(d),
        T::Enum(n, vs) => 1 + n.len() + vs.iter().map(|(vn, d)| vn.len() + 1 + dsz(d)).sum::<usize>(),
    }
}
/// can a value of this schema occupy zero bytes? (only used to keep adversarial length claims for sequences of
/// zero-width elements small enough that the known unbounded-allocation finding does not exhaust memory)
fn zero_width(t: &T) -> bool {
    let d0 = |d: &D| match d {
        D::Unit => true,
        D::Newtype(t) => zero_width(t),
        D::Tuple(ts) => ts.iter().all(zero_width),
        D::Struct(fs) => fs.iter().all(|(_, t)| zero_width(t)),
    };
    match t {
        T::Prim(k) => *k == "Unit",
        T::Tuple(ts) => ts.iter().all(zero_width),
        T::Struct(_, d) => d0(d),
        _ => false,
    }
}
fn has_zero_width_seq(t: &T) -> bool {
    let d1 = |d: &D| match d {
        D::Unit => false,
        D::Newtype(t) => has_zero_width_seq(t),
        D::Tuple(ts) => ts.iter().any(has_zero_width_seq),
        D::Struct(fs) => fs.iter().any(|(_, t)| has_zero_width_seq(t)),
    };
    match t {
        T::Prim(_) => false,
        T::Seq(x) => zero_width(x) || has_zero_width_seq(x),
        T::Option(x) => has_zero_width_seq(x),
        T::Tuple(ts) => ts.iter().any(has_zero_width_seq),
        T::Map(k, v) => has_zero_width_seq(k) || has_zero_width_seq(v) || zero_width(v),
        T::Struct(_, d) => d1(d),
        T::Enum(_, vs) => vs.iter().any(|(_, d)| d1(d)),
    }
}
fn varint(mut n: u128) -> Vec<u8> {
    let mut o = vec![];
    loop {
        let b = (n & 0x7f) as u8;
        n >>= 7;
        if n != 0 { o.push(b | 0x80) } else { o.push(b); return o; }
    }
}
fn run_total(a: &Args) {
    let n = a.num("n", 100);
    let seed = a.num("seed", 1);
    let mut r = StdRng::seed_from_u64(seed ^ 0xd18);
    let mut out = std::io::BufWriter::new(std::fs::File::create(a.str("out", "/dev/stdout")).unwrap());
    let marker = a.get("marker").map(|s| s.to_string());
    let mut cnt = 0u64;
    for i in 0..n {
        vcommon::obs::mark_case(&marker, &format!("dyn-total:{seed}:{i}"));
        let tree = stree::gt(&mut r, 1 + (i % 4) as u32, 4);
        let schema: OwnedDataModelType = stree::lt(&tree).into();
        let tj = stree::tj(&tree);
        let ssz = schema_size(&tree);
        // ---- encoder on type-correct / near-miss / unrelated JSON, then the idempotence round
        for j in 0..4 {
            let jv = if j == 3 { [json!(null), json!([[]]), json!({"a":{"b":[1,2,{"c":null}]}}), json!(1e300)][r.gen_range(0..4)].clone() } else { gjson_for(&mut r, &tree, 3) };
            let e = enc(&schema, &jv);
            let mut ev = json!({"op":"dyn_ser","schema":tj,"json":js(&jv)});
            if let Ok(Ok(b)) = &e {
                let d = dec(&schema, b);
                ev["dec"] = dynres_json(match &d { Ok(Ok(v)) => Ok(Ok(v.clone())), Ok(Err(e)) => Ok(Err(postcard_dyn_err::E(e.0.clone()))), Err(p) => Err(p.clone()) });
                if let Ok(Ok(v2)) = &d {
                    ev["reenc"] = dynres_bytes(enc(&schema, v2));
                }
            }
            ev["res"] = dynres_bytes(e);
            writeln!(out, "{}", ev).unwrap();
            cnt += 1;
        }
        // ---- decoder on valid / mutated / adversarial / random bytes, allocation measured
        let mut inputs: Vec<Vec<u8>> = vec![];
        for _ in 0..2 {
            let jv = gjson_for(&mut r, &tree, 3);
            if let Ok(Ok(b)) = enc(&schema, &jv) {
                let mut m = b.clone();
                inputs.push(b);
                if !m.is_empty() {
                    let p = r.gen_range(0..m.len());
                    match r.gen_range(0..3) {
                        0 => m[p] = r.gen(),
                        1 => m.truncate(p),
                        _ => { m.splice(p..p + 1, varint([u64::MAX as u128, 1u128 << r.gen_range(7..64), 1 << 20, (m.len() as u128) + 1][r.gen_range(0..4)])); }
                    }
                    inputs.push(m);
                }
            }
        }
        inputs.push((0..r.gen_range(0..16)).map(|_| r.gen()).collect());
        inputs.push(varint([u64::MAX as u128, 1 << 20, 1 << 30, 1u128 << 63][r.gen_range(0..4)]));
        if has_zero_width_seq(&tree) {
            // keep claimed counts of zero-width elements at <= 2^16 (see zero_width)
            inputs.retain(|inp| inp.windows(3).all(|w| !(w[0] >= 0x80 && w[1] >= 0x80 && w[2] >= 0x04)) && inp.len() < 64);
        }
        for inp in inputs {
            vcommon::obs::mark_case(&marker, &format!("dyn-total:{seed}:{i}"));
            let (d, st) = measure(|| dec(&schema, &inp));
            writeln!(out, "{}", json!({"op":"dyn_de","schema":tj,"schema_size":ssz,"input":inp,"res":dynres_json(d),"alloc_peak":st.peak})).unwrap();
            cnt += 1;
        }
    }
    out.flush().unwrap();
    eprintln!("dyn-total: {cnt} events");
}

/// re-execute recorded events (replay / known-finding witnesses)
fn run_replay(a: &Args) {
    let inp = std::fs::read_to_string(a.get("in").expect("--in")).expect("read");
    let mut out = std::io::BufWriter::new(std::fs::File::create(a.str("out", "/dev/stdout")).unwrap());
    for line in inp.lines().filter(|l| !l.trim().is_empty()) {
        let e: J = serde_json::from_str(line).expect("json");
        if e["op"] == "dyn_t" {
            // concrete types are regenerated (seed 1) and matched by type name and static bytes, else by type name
            let mut r = StdRng::seed_from_u64(1 ^ 0xd7);
            let mut lines = vec![];
            for _ in 0..2 {
                corpus::run(&mut r, &mut lines);
            }
            let parsed: Vec<J> = lines.iter().map(|l| serde_json::from_str(l).unwrap()).collect();
            let hit = parsed.iter().find(|x| x["ty"] == e["ty"] && x["static_bytes"] == e["static_bytes"]).or_else(|| parsed.iter().find(|x| x["ty"] == e["ty"] && x["tree"]["c"] == e["tree"]["c"] && x["tree"]["i"] == e["tree"]["i"]));
            writeln!(out, "{}", hit.unwrap_or(&e)).unwrap();
            continue;
        }
        let tree = stree::t_from(&e["schema"]);
        let schema: OwnedDataModelType = stree::lt(&tree).into();
        let bytes = |j: &J| -> Vec<u8> { j.as_array().unwrap().iter().map(|x| x.as_u64().unwrap() as u8).collect() };
        let mut ev = e.clone();
        match e["op"].as_str().unwrap() {
            "dyn_de" => {
                let inp = bytes(&e["input"]);
                let (d, st) = measure(|| dec(&schema, &inp));
                ev["res"] = dynres_json(d);
                ev["alloc_peak"] = json!(st.peak);
            }
            "dyn" => {
                let s = Shape::from_json(&e["shape"]);
                let v = Val::from_json(&s, &e["value"]);
                let sv = SV(&s, &v);
                let sb = postcard::to_allocvec(&sv).expect("encode");
                let jv = serde_json::to_value(&sv).expect("json");
                ev["static_bytes"] = json!(sb);
                ev["json"] = js(&jv);
                ev["dyn_bytes"] = dynres_bytes(enc(&schema, &jv));
                ev["dyn_json"] = dynres_json(dec(&schema, &sb));
            }
            _ => {}
        }
        writeln!(out, "{}", ev).unwrap();
    }
    out.flush().unwrap();
}

fn main() {
    let mut a = std::env::args().skip(1);
    let cmd = a.next().expect("subcommand");
    let rest: Vec<String> = a.collect();
    let mut m = HashMap::new();
    let mut i = 0;
    while i < rest.len() {
        m.insert(rest[i].trim_start_matches("--").to_string(), rest.get(i + 1).cloned().unwrap_or_default());
        i += 2;
    }
    let args = Args(m);
    vcommon::obs::install_panic_hook();
    match cmd.as_str() {
        "agree" => run_agree(&args),
        "total" => run_total(&args),
        "replay" => run_replay(&args),
        _ => panic!("unknown subcommand {cmd}"),
    }
}
