//! C12: POSTCARD_MAX_SIZE. One event per implementing type: the declared constant, the shape (with
//! capacities) and the encoded lengths of values chosen to maximise every field.
mod big_enums;
use big_enums::*;
use postcard::experimental::max_size::MaxSize;
use postcard_derive::MaxSize as DMaxSize;
use serde::Serialize;
use serde_json::{json, Value as J};
use std::io::Write;
use std::num::*;

fn k(s: &str) -> J {
    json!({ "k": s })
}
fn opt(t: J) -> J {
    json!({"k":"opt","t":t})
}
fn tup(ts: Vec<J>) -> J {
    json!({"k":"tuple","ts":ts})
}
fn arr(t: J, n: usize) -> J {
    json!({"k":"tuple","ts":vec![t; n]})
}
fn st(fs: Vec<J>) -> J {
    // field names do not matter for sizes
    json!({"k":"struct","fs":fs.into_iter().map(|t| json!({"n":[102],"t":t})).collect::<Vec<_>>()})
}
fn hvec(t: J, cap: usize) -> J {
    json!({"k":"hvec","t":t,"cap":cap})
}
fn hstr(cap: usize) -> J {
    json!({"k":"hstr","cap":cap})
}
fn en(vs: Vec<J>) -> J {
    json!({"k":"enum","vs":vs.into_iter().map(|d| json!({"n":[86],"d":d})).collect::<Vec<_>>()})
}
fn du() -> J {
    json!({"k":"unit"})
}
fn dn(t: J) -> J {
    json!({"k":"newtype","t":t})
}
fn dt(ts: Vec<J>) -> J {
    json!({"k":"tuple","ts":ts})
}
fn ds(fs: Vec<J>) -> J {
    json!({"k":"struct","fs":fs.into_iter().map(|t| json!({"n":[102],"t":t})).collect::<Vec<_>>()})
}

struct W(std::io::BufWriter<std::fs::File>, u64);
fn emit<T: MaxSize + Serialize>(out: &mut W, ty: &str, shape: J, vals: &[T]) {
    let lens: Vec<J> = vals
        .iter()
        .map(|v| match vcommon::obs::catch(|| postcard::to_allocvec(v)) {
            Ok(Ok(b)) => json!(b.len()),
            // the bound's purpose: a buffer of that size always suffices
            _ => json!(-1),
        })
        .collect();
    // and the buffer of exactly the declared size must suffice for every value
    let fits: Vec<J> = vals
        .iter()
        .map(|v| {
            let mut buf = vec![0u8; T::POSTCARD_MAX_SIZE];
            json!(postcard::to_slice(v, &mut buf).is_ok() as u8)
        })
        .collect();
    writeln!(out.0, "{}", json!({"op":"maxsize","ty":ty,"shape":shape,"declared":T::POSTCARD_MAX_SIZE,"lens":lens,"fits":fits})).unwrap();
    out.1 += 1;
}

// ---- derive users
#[derive(Serialize, DMaxSize)]
struct UnitS;
#[derive(Serialize, DMaxSize)]
struct NewS(u64);
#[derive(Serialize, DMaxSize)]
struct TupS(u8, char, Option<i128>);
#[derive(Serialize, DMaxSize)]
struct NamedS {
    a: bool,
    b: u32,
    c: [i16; 3],
    d: (f32, f64),
}
#[derive(Serialize, DMaxSize)]
struct Gen<A, B> {
    a: A,
    b: Option<B>,
}
#[derive(Serialize, DMaxSize)]
struct Nest {
    n: NamedS,
    e: E3,
    h: heapless::Vec<u16, 4>,
    s: heapless::String<5>,
}
#[derive(Serialize, DMaxSize)]
enum E1 {
    Only(u32),
}
#[derive(Serialize, DMaxSize)]
enum E1U {
    Only,
}
#[derive(Serialize, DMaxSize)]
enum E2 {
    A,
    B(u8, u8),
}
#[derive(Serialize, DMaxSize)]
enum E3 {
    A,
    B { x: i64, y: char },
    C(Option<u16>),
}
#[derive(Serialize, DMaxSize)]
enum EGen<T> {
    N,
    S(T),
    P(T, T),
}

fn main() {
    let argv: Vec<String> = std::env::args().collect();
    let path = argv.iter().skip_while(|a| *a != "--out").nth(1).cloned().unwrap_or("/dev/stdout".into());
    if argv.get(1).map(|s| s == "replay").unwrap_or(false) {
        // re-generate every event and keep those whose type was recorded in the input
        let inp = std::fs::read_to_string(argv.iter().skip_while(|a| *a != "--in").nth(1).expect("--in")).expect("read");
        let want: Vec<String> = inp.lines().filter_map(|l| serde_json::from_str::<J>(l).ok()).filter_map(|e| e["ty"].as_str().map(|s| s.to_string())).collect();
        let tmp = format!("{path}.all");
        let st = std::process::Command::new(&argv[0]).args(["--out", &tmp]).status().expect("self");
        assert!(st.success());
        let all = std::fs::read_to_string(&tmp).unwrap();
        let _ = std::fs::remove_file(&tmp);
        let keep: Vec<&str> = all.lines().filter(|l| serde_json::from_str::<J>(l).map(|e| want.iter().any(|w| e["ty"] == w.as_str())).unwrap_or(false)).collect();
        std::fs::write(&path, keep.join("\n") + "\n").unwrap();
        return;
    }
    vcommon::obs::install_panic_hook();
    let mut out = W(std::io::BufWriter::new(std::fs::File::create(path).unwrap()), 0);
    let o = &mut out;
    // ---- built-ins
    emit(o, "bool", k("bool"), &[true, false]);
    emit(o, "u8", k("u8"), &[u8::MAX, 0]);
    emit(o, "i8", k("i8"), &[i8::MIN, 0]);
    emit(o, "u16", k("u16"), &[u16::MAX, 0, 127, 128]);
    emit(o, "i16", k("i16"), &[i16::MIN, i16::MAX, 0, -1]);
    emit(o, "u32", k("u32"), &[u32::MAX, 0]);
    emit(o, "i32", k("i32"), &[i32::MIN, i32::MAX]);
    emit(o, "u64", k("u64"), &[u64::MAX, 0]);
    emit(o, "i64", k("i64"), &[i64::MIN, i64::MAX]);
    emit(o, "u128", k("u128"), &[u128::MAX, 0]);
    emit(o, "i128", k("i128"), &[i128::MIN, i128::MAX]);
    emit(o, "usize", k("usize"), &[usize::MAX, 0]);
    emit(o, "isize", k("isize"), &[isize::MIN, isize::MAX]);
    emit(o, "f32", k("f32"), &[f32::MAX, 0.0]);
    emit(o, "f64", k("f64"), &[f64::MIN, 0.0]);
    emit(o, "char", k("char"), &['\u{10ffff}', 'a', '€']);
    emit(o, "()", k("unit"), &[()]);
    emit(o, "NonZeroU8", k("u8"), &[NonZeroU8::MAX]);
    emit(o, "NonZeroI8", k("i8"), &[NonZeroI8::MIN]);
    emit(o, "NonZeroU16", k("u16"), &[NonZeroU16::MAX]);
    emit(o, "NonZeroI16", k("i16"), &[NonZeroI16::MIN]);
    emit(o, "NonZeroU32", k("u32"), &[NonZeroU32::MAX]);
    emit(o, "NonZeroI32", k("i32"), &[NonZeroI32::MIN]);
    emit(o, "NonZeroU64", k("u64"), &[NonZeroU64::MAX]);
    emit(o, "NonZeroI64", k("i64"), &[NonZeroI64::MIN]);
    emit(o, "NonZeroU128", k("u128"), &[NonZeroU128::MAX]);
    emit(o, "NonZeroI128", k("i128"), &[NonZeroI128::MIN]);
    emit(o, "NonZeroUsize", k("usize"), &[NonZeroUsize::MAX]);
    emit(o, "NonZeroIsize", k("isize"), &[NonZeroIsize::MIN]);
    emit(o, "Option<u32>", opt(k("u32")), &[Some(u32::MAX), None]);
    emit(o, "Option<Option<char>>", opt(opt(k("char"))), &[Some(Some('\u{10ffff}')), Some(None), None]);
    emit(o, "Result<u8,u64>", en(vec![dn(k("u8")), dn(k("u64"))]), &[Ok(1u8), Err(u64::MAX)]);
    emit(o, "Result<u64,()>", en(vec![dn(k("u64")), dn(k("unit"))]), &[Ok(u64::MAX), Err(())]);
    emit(o, "[u8;0]", arr(k("u8"), 0), &[[0u8; 0]]);
    emit(o, "[u16;3]", arr(k("u16"), 3), &[[u16::MAX; 3]]);
    emit(o, "[char;32]", arr(k("char"), 32), &[['\u{10ffff}'; 32]]);
    emit(o, "[[i64;2];2]", arr(arr(k("i64"), 2), 2), &[[[i64::MIN; 2]; 2]]);
    emit(o, "(u8,)", tup(vec![k("u8")]), &[(255u8,)]);
    emit(o, "(u8,u16)", tup(vec![k("u8"), k("u16")]), &[(255u8, u16::MAX)]);
    emit(o, "(u8,u16,u32)", tup(vec![k("u8"), k("u16"), k("u32")]), &[(255u8, u16::MAX, u32::MAX)]);
    emit(o, "(4)", tup(vec![k("u8"), k("u16"), k("u32"), k("u64")]), &[(255u8, u16::MAX, u32::MAX, u64::MAX)]);
    emit(o, "(5)", tup(vec![k("u8"), k("u16"), k("u32"), k("u64"), k("u128")]), &[(255u8, u16::MAX, u32::MAX, u64::MAX, u128::MAX)]);
    emit(o, "(6)", tup(vec![k("u8"), k("u16"), k("u32"), k("u64"), k("u128"), k("char")]), &[(255u8, u16::MAX, u32::MAX, u64::MAX, u128::MAX, '\u{10ffff}')]);
    emit(o, "&u32", k("u32"), &[&u32::MAX]);
    emit(o, "PhantomData<u64>", k("unit_struct"), &[std::marker::PhantomData::<u64>]);
    emit(o, "Range<u16>", st(vec![k("u16"), k("u16")]), &[u16::MAX..u16::MAX]);
    emit(o, "RangeInclusive<i32>", st(vec![k("i32"), k("i32")]), &[i32::MIN..=i32::MIN]);
    emit(o, "RangeFrom<u64>", st(vec![k("u64")]), &[u64::MAX..]);
    emit(o, "RangeTo<u8>", st(vec![k("u8")]), &[..255u8]);
    emit(o, "Box<u32>", k("u32"), &[Box::new(u32::MAX)]);
    emit(o, "Rc<(u8,i64)>", tup(vec![k("u8"), k("i64")]), &[std::rc::Rc::new((1u8, i64::MIN))]);
    emit(o, "Arc<[u16;2]>", arr(k("u16"), 2), &[std::sync::Arc::new([u16::MAX; 2])]);
    // heapless containers at capacities around the varint boundaries of the length prefix
    macro_rules! hv {
        ($($n:literal),*) => {$(
            {
                let mut v: heapless::Vec<u8, $n> = heapless::Vec::new();
                for _ in 0..$n { v.push(0xFF).unwrap(); }
                emit(o, concat!("heapless::Vec<u8,", stringify!($n), ">"), hvec(k("u8"), $n), &[v, heapless::Vec::new()]);
                let mut s: heapless::String<$n> = heapless::String::new();
                for _ in 0..$n { s.push('a').unwrap(); }
                emit(o, concat!("heapless::String<", stringify!($n), ">"), hstr($n), &[s, heapless::String::new()]);
            }
        )*};
    }
    hv!(0, 1, 127, 128, 16383, 16384);
    // element type x capacity grid: the length prefix is sized by the element COUNT, whatever the element width
    macro_rules! grid {
        ($t:ty, $shape:expr, $max:expr; $($n:literal),*) => {$(
            {
                let mut v: heapless::Vec<$t, $n> = heapless::Vec::new();
                for _ in 0..$n { let _ = v.push($max); }
                emit(o, concat!("heapless::Vec<", stringify!($t), ",", stringify!($n), ">"), hvec($shape, $n), &[v, heapless::Vec::new()]);
            }
        )*};
    }
    grid!((), k("unit"), (); 1, 127, 128, 200, 16384);
    grid!(u16, k("u16"), u16::MAX; 2, 42, 43, 63, 64, 127, 128);
    grid!(u64, k("u64"), u64::MAX; 12, 13, 127, 128, 1638, 1639);
    grid!([u8; 0], arr(k("u8"), 0), []; 127, 128);
    grid!(Option<u8>, opt(k("u8")), Some(255u8); 63, 64, 65, 128);
    grid!((u8, u32), tup(vec![k("u8"), k("u32")]), (255u8, u32::MAX); 21, 22, 127, 128);
    {
        let mut v: heapless::Vec<u32, 3> = heapless::Vec::new();
        for _ in 0..3 {
            v.push(u32::MAX).unwrap();
        }
        emit(o, "heapless::Vec<u32,3>", hvec(k("u32"), 3), &[v]);
        let mut v: heapless::Vec<Option<char>, 129> = heapless::Vec::new();
        for _ in 0..129 {
            v.push(Some('\u{10ffff}')).unwrap();
        }
        emit(o, "heapless::Vec<Option<char>,129>", hvec(opt(k("char")), 129), &[v]);
        // a string's worst case is capacity bytes, e.g. multi-byte scalars filling it exactly
        let mut s: heapless::String<8> = heapless::String::new();
        s.push_str("😀😀").unwrap();
        emit(o, "heapless::String<8>", hstr(8), &[s]);
    }
    // ---- derive users (the repository's postcard-derive)
    emit(o, "UnitS", k("unit_struct"), &[UnitS]);
    emit(o, "NewS", json!({"k":"newtype_struct","t":k("u64")}), &[NewS(u64::MAX)]);
    emit(o, "TupS", json!({"k":"tuple_struct","ts":[k("u8"), k("char"), opt(k("i128"))]}), &[TupS(255, '\u{10ffff}', Some(i128::MIN))]);
    let named = || NamedS { a: true, b: u32::MAX, c: [i16::MIN; 3], d: (f32::MAX, f64::MAX) };
    let named_shape = st(vec![k("bool"), k("u32"), arr(k("i16"), 3), tup(vec![k("f32"), k("f64")])]);
    emit(o, "NamedS", named_shape.clone(), &[named()]);
    emit(o, "Gen<u16,char>", st(vec![k("u16"), opt(k("char"))]), &[Gen { a: u16::MAX, b: Some('\u{10ffff}') }, Gen { a: 0, b: None }]);
    let e3_shape = en(vec![du(), ds(vec![k("i64"), k("char")]), dn(opt(k("u16")))]);
    {
        let mut h: heapless::Vec<u16, 4> = heapless::Vec::new();
        for _ in 0..4 {
            h.push(u16::MAX).unwrap();
        }
        let mut s: heapless::String<5> = heapless::String::new();
        s.push_str("aaaaa").unwrap();
        emit(o, "Nest", st(vec![named_shape.clone(), e3_shape.clone(), hvec(k("u16"), 4), hstr(5)]), &[Nest { n: named(), e: E3::B { x: i64::MIN, y: '\u{10ffff}' }, h, s }]);
    }
    emit(o, "E1", en(vec![dn(k("u32"))]), &[E1::Only(u32::MAX)]);
    emit(o, "E1U", en(vec![du()]), &[E1U::Only]);
    emit(o, "E2", en(vec![du(), dt(vec![k("u8"), k("u8")])]), &[E2::A, E2::B(255, 255)]);
    emit(o, "E3", e3_shape, &[E3::A, E3::B { x: i64::MIN, y: '\u{10ffff}' }, E3::C(Some(u16::MAX))]);
    emit(o, "EGen<u64>", en(vec![du(), dn(k("u64")), dt(vec![k("u64"), k("u64")])]), &[EGen::N, EGen::S(u64::MAX), EGen::P(u64::MAX, u64::MAX)]);
    let many = |n: usize| {
        let mut vs = vec![du(); n - 1];
        vs.push(dn(k("u16")));
        en(vs)
    };
    emit(o, "E127", many(127), &[E127::V0, E127::V125, E127::Last(u16::MAX)]);
    emit(o, "E128", many(128), &[E128::V0, E128::V126, E128::Last(u16::MAX)]);
    emit(o, "E129", many(129), &[E129::V0, E129::V127, E129::Last(u16::MAX)]);
    emit(o, "Option<E129>", opt(many(129)), &[Some(E129::Last(u16::MAX)), None]);
    out.0.flush().unwrap();
    eprintln!("maxsize: {} events", out.1);
}
