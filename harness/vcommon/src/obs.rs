//! Observation of what the specification cannot express by itself: guard pages, allocation counting,
//! panics. Each observation becomes a field of a trace event that the trace specification constrains.
use std::alloc::{GlobalAlloc, Layout, System};
use std::cell::{Cell, RefCell};

// ------------------------------------------------------------------ guard-page buffers
pub struct Guarded {
    base: *mut u8,
    map_len: usize,
    data: *mut u8,
    len: usize,
}
const PAGE: usize = 4096;
impl Guarded {
    /// `end_flush`: the byte after the buffer is inaccessible; otherwise the byte before it is.
    pub fn new(len: usize, end_flush: bool) -> Guarded {
        let pages = (len + PAGE - 1) / PAGE + 1; // at least one data page so that len=0 still has an address
        let map_len = (pages + 1) * PAGE;
        unsafe {
            let base = libc::mmap(std::ptr::null_mut(), map_len, libc::PROT_READ | libc::PROT_WRITE, libc::MAP_PRIVATE | libc::MAP_ANONYMOUS, -1, 0);
            assert!(base != libc::MAP_FAILED, "mmap");
            let base = base as *mut u8;
            let data = if end_flush {
                let guard = base.add(pages * PAGE);
                assert_eq!(libc::mprotect(guard as *mut _, PAGE, libc::PROT_NONE), 0);
                guard.sub(len)
            } else {
                assert_eq!(libc::mprotect(base as *mut _, PAGE, libc::PROT_NONE), 0);
                base.add(PAGE)
            };
            Guarded { base, map_len, data, len }
        }
    }
    pub fn from(bytes: &[u8], end_flush: bool) -> Guarded {
        let mut g = Guarded::new(bytes.len(), end_flush);
        g.as_mut().copy_from_slice(bytes);
        g
    }
    pub fn as_mut(&mut self) -> &mut [u8] {
        unsafe { std::slice::from_raw_parts_mut(self.data, self.len) }
    }
    pub fn as_ref(&self) -> &[u8] {
        unsafe { std::slice::from_raw_parts(self.data, self.len) }
    }
}
impl Drop for Guarded {
    fn drop(&mut self) {
        unsafe {
            libc::munmap(self.base as *mut _, self.map_len);
        }
    }
}

// ------------------------------------------------------------------ counting allocator
pub struct Counting;
thread_local! {
    static ON: Cell<bool> = const { Cell::new(false) };
    static LIVE: Cell<usize> = const { Cell::new(0) };
    static PEAK: Cell<usize> = const { Cell::new(0) };
    static TOTAL: Cell<usize> = const { Cell::new(0) };
    static MAXREQ: Cell<usize> = const { Cell::new(0) };
}
fn on_alloc(n: usize) {
    let _ = ON.try_with(|on| {
        if on.get() {
            LIVE.with(|l| {
                l.set(l.get() + n);
                PEAK.with(|p| p.set(p.get().max(l.get())));
            });
            TOTAL.with(|t| t.set(t.get() + n));
            MAXREQ.with(|m| m.set(m.get().max(n)));
        }
    });
}
fn on_free(n: usize) {
    let _ = ON.try_with(|on| {
        if on.get() {
            LIVE.with(|l| l.set(l.get().saturating_sub(n)));
        }
    });
}
unsafe impl GlobalAlloc for Counting {
    unsafe fn alloc(&self, l: Layout) -> *mut u8 {
        on_alloc(l.size());
        System.alloc(l)
    }
    unsafe fn dealloc(&self, p: *mut u8, l: Layout) {
        on_free(l.size());
        System.dealloc(p, l)
    }
    unsafe fn realloc(&self, p: *mut u8, l: Layout, new: usize) -> *mut u8 {
        on_free(l.size());
        on_alloc(new);
        System.realloc(p, l, new)
    }
    unsafe fn alloc_zeroed(&self, l: Layout) -> *mut u8 {
        on_alloc(l.size());
        System.alloc_zeroed(l)
    }
}
#[global_allocator]
static GLOBAL: Counting = Counting;

#[derive(Debug, Clone, Copy, Default)]
pub struct AllocStats {
    pub peak: usize,
    pub total: usize,
    pub max_request: usize,
}
/// run `f` with allocation counting on for this thread
pub fn measure<R>(f: impl FnOnce() -> R) -> (R, AllocStats) {
    LIVE.with(|l| l.set(0));
    PEAK.with(|l| l.set(0));
    TOTAL.with(|l| l.set(0));
    MAXREQ.with(|l| l.set(0));
    ON.with(|o| o.set(true));
    struct Off;
    impl Drop for Off {
        fn drop(&mut self) {
            ON.with(|o| o.set(false));
        }
    }
    let _off = Off;
    let r = f();
    ON.with(|o| o.set(false));
    (r, AllocStats { peak: PEAK.with(|p| p.get()), total: TOTAL.with(|p| p.get()), max_request: MAXREQ.with(|p| p.get()) })
}

// ------------------------------------------------------------------ panics
thread_local! { static LAST_PANIC: RefCell<String> = RefCell::new(String::new()); static DEPTH: Cell<u32> = const { Cell::new(0) }; }
/// safety net: a runaway allocation in the code under test must not take the sandbox down
pub fn limit_memory(bytes: u64) {
    unsafe {
        let lim = libc::rlimit { rlim_cur: bytes, rlim_max: bytes };
        libc::setrlimit(libc::RLIMIT_AS, &lim);
    }
}
pub fn install_panic_hook() {
    limit_memory(6 << 30);
    std::panic::set_hook(Box::new(|info| {
        let loc = info.location().map(|l| format!("{}:{}", l.file(), l.line())).unwrap_or_default();
        let msg = if let Some(s) = info.payload().downcast_ref::<&str>() {
            s.to_string()
        } else if let Some(s) = info.payload().downcast_ref::<String>() {
            s.clone()
        } else {
            String::new()
        };
        // strip everything up to the crate dir so the location is stable across checkouts
        let loc = match loc.find("/source/") {
            Some(i) => loc[i + 1..].to_string(),
            None => loc,
        };
        if DEPTH.with(|d| d.get()) == 0 {
            eprintln!("harness panic outside a supervised call: {loc}: {msg}");
        }
        LAST_PANIC.with(|p| *p.borrow_mut() = format!("{loc}: {}", msg.chars().take(120).collect::<String>()));
    }));
}
/// Ok(result) or Err("file:line: message")
pub fn catch<R>(f: impl FnOnce() -> R) -> Result<R, String> {
    DEPTH.with(|d| d.set(d.get() + 1));
    let r = std::panic::catch_unwind(std::panic::AssertUnwindSafe(f));
    DEPTH.with(|d| d.set(d.get() - 1));
    match r {
        Ok(r) => Ok(r),
        Err(_) => {
            ON.with(|o| o.set(false));
            Err(LAST_PANIC.with(|p| p.borrow().clone()))
        }
    }
}

// ------------------------------------------------------------------ case marker for the supervisor
/// written before each case so a supervisor can tell which case killed the process
pub fn mark_case(path: &Option<String>, id: &str) {
    if let Some(p) = path {
        let _ = std::fs::write(p, id);
    }
}
