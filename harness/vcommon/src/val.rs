//! Dynamic shape/value covering the serde data model, with hand-written Serialize / DeserializeSeed.
//! JSON conventions are those of DESIGN.md section 2.2 (wide integers as little-endian byte limbs,
//! floats as bit patterns, names as UTF-8 byte arrays).
use serde::de::{self, DeserializeSeed, EnumAccess, MapAccess, SeqAccess, VariantAccess, Visitor};
use serde::ser::{
    self, SerializeMap, SerializeSeq, SerializeStruct, SerializeStructVariant, SerializeTuple,
    SerializeTupleStruct, SerializeTupleVariant,
};
use serde_json::{json, Value as J};
use std::cell::{Cell, RefCell};
use std::fmt;

#[derive(Clone, Debug, PartialEq)]
pub enum Data {
    Unit,
    Newtype(Box<Shape>),
    Tuple(Vec<Shape>),
    Struct(Vec<(String, Shape)>),
}

#[derive(Clone, Copy, Debug, PartialEq, Eq, Hash)]
pub enum IntK {
    U16,
    I16,
    U32,
    I32,
    U64,
    I64,
    U128,
    I128,
}
impl IntK {
    pub const ALL: [IntK; 8] = [IntK::U16, IntK::I16, IntK::U32, IntK::I32, IntK::U64, IntK::I64, IntK::U128, IntK::I128];
    pub fn name(self) -> &'static str {
        match self {
            IntK::U16 => "u16",
            IntK::I16 => "i16",
            IntK::U32 => "u32",
            IntK::I32 => "i32",
            IntK::U64 => "u64",
            IntK::I64 => "i64",
            IntK::U128 => "u128",
            IntK::I128 => "i128",
        }
    }
    pub fn from_name(s: &str) -> Option<IntK> {
        IntK::ALL.iter().copied().find(|k| k.name() == s)
    }
    pub fn width(self) -> u32 {
        match self {
            IntK::U16 | IntK::I16 => 16,
            IntK::U32 | IntK::I32 => 32,
            IntK::U64 | IntK::I64 => 64,
            _ => 128,
        }
    }
}

#[derive(Clone, Debug, PartialEq)]
pub enum Shape {
    Bool,
    U8,
    I8,
    Int(IntK),
    Usize,
    Isize,
    F32,
    F64,
    Char,
    Str,
    Bytes,
    Unit,
    Opt(Box<Shape>),
    UnitStruct,
    NewtypeStruct(Box<Shape>),
    Seq(Box<Shape>),
    Tuple(Vec<Shape>),
    TupleStruct(Vec<Shape>),
    Map(Box<Shape>, Box<Shape>),
    Struct(Vec<(String, Shape)>),
    Enum(Vec<(String, Data)>),
    /// `#[serde(with = "postcard::fixint::le|be")]`; bool = big endian
    Fix(bool, IntK),
}

/// Integers are kept as their two's-complement bit pattern in a u128 (low `width` bits).
#[derive(Clone, Debug, PartialEq)]
pub enum Val {
    Bool(bool),
    U8(u8),
    I8(i8),
    Int(IntK, u128),
    F32(u32),
    F64(u64),
    Char(char),
    Str(Vec<u8>),
    Bytes(Vec<u8>),
    Unit,
    None,
    Some(Box<Val>),
    Seq(Vec<Val>),
    Map(Vec<(Val, Val)>),
    Variant(u32, Box<Val>),
}

pub fn leak(s: &str) -> &'static str {
    // names are few and short; interned to keep leaks bounded
    thread_local! { static POOL: RefCell<std::collections::HashMap<String, &'static str>> = RefCell::new(Default::default()); }
    POOL.with(|p| {
        let mut p = p.borrow_mut();
        if let Some(x) = p.get(s) {
            return *x;
        }
        let l: &'static str = Box::leak(s.to_string().into_boxed_str());
        p.insert(s.to_string(), l);
        l
    })
}
fn leak_names(ns: Vec<&'static str>) -> &'static [&'static str] {
    thread_local! { static POOL: RefCell<std::collections::HashMap<Vec<&'static str>, &'static [&'static str]>> = RefCell::new(Default::default()); }
    POOL.with(|p| {
        let mut p = p.borrow_mut();
        if let Some(x) = p.get(&ns) {
            return *x;
        }
        let l: &'static [&'static str] = Box::leak(ns.clone().into_boxed_slice());
        p.insert(ns, l);
        l
    })
}
fn fields_of(fs: &[(String, Shape)]) -> &'static [&'static str] {
    leak_names(fs.iter().map(|(n, _)| leak(n)).collect())
}
pub fn jbytes(b: &[u8]) -> J {
    J::Array(b.iter().map(|x| json!(*x)).collect())
}
pub fn limbs(x: u128, w: u32) -> J {
    jbytes(&x.to_le_bytes()[..(w / 8) as usize])
}
fn unbytes(j: &J) -> Vec<u8> {
    j.as_array().expect("byte array").iter().map(|x| x.as_u64().expect("byte") as u8).collect()
}
fn unlimbs(j: &J) -> u128 {
    let b = unbytes(j);
    let mut a = [0u8; 16];
    a[..b.len()].copy_from_slice(&b);
    u128::from_le_bytes(a)
}

impl Data {
    pub fn to_json(&self) -> J {
        match self {
            Data::Unit => json!({"k":"unit"}),
            Data::Newtype(t) => json!({"k":"newtype","t":t.to_json()}),
            Data::Tuple(ts) => json!({"k":"tuple","ts":ts.iter().map(|t| t.to_json()).collect::<Vec<_>>()}),
            Data::Struct(fs) => {
                json!({"k":"struct","fs":fs.iter().map(|(n,t)| json!({"n":jbytes(n.as_bytes()),"t":t.to_json()})).collect::<Vec<_>>()})
            }
        }
    }
    pub fn from_json(j: &J) -> Data {
        match j["k"].as_str().unwrap() {
            "unit" => Data::Unit,
            "newtype" => Data::Newtype(Box::new(Shape::from_json(&j["t"]))),
            "tuple" => Data::Tuple(j["ts"].as_array().unwrap().iter().map(Shape::from_json).collect()),
            "struct" => Data::Struct(fields_from(&j["fs"])),
            k => panic!("data kind {k}"),
        }
    }
}
fn fields_from(j: &J) -> Vec<(String, Shape)> {
    j.as_array().unwrap().iter().map(|f| (String::from_utf8(unbytes(&f["n"])).unwrap(), Shape::from_json(&f["t"]))).collect()
}
impl Shape {
    pub fn to_json(&self) -> J {
        use Shape::*;
        let k = |s: &str| json!({ "k": s });
        match self {
            Bool => k("bool"),
            U8 => k("u8"),
            I8 => k("i8"),
            Int(i) => k(i.name()),
            Usize => k("usize"),
            Isize => k("isize"),
            F32 => k("f32"),
            F64 => k("f64"),
            Char => k("char"),
            Str => k("str"),
            Bytes => k("bytes"),
            Unit => k("unit"),
            UnitStruct => k("unit_struct"),
            Opt(t) => json!({"k":"opt","t":t.to_json()}),
            NewtypeStruct(t) => json!({"k":"newtype_struct","t":t.to_json()}),
            Seq(t) => json!({"k":"seq","t":t.to_json()}),
            Tuple(ts) => json!({"k":"tuple","ts":ts.iter().map(|t| t.to_json()).collect::<Vec<_>>()}),
            TupleStruct(ts) => json!({"k":"tuple_struct","ts":ts.iter().map(|t| t.to_json()).collect::<Vec<_>>()}),
            Map(a, b) => json!({"k":"map","kt":a.to_json(),"vt":b.to_json()}),
            Struct(fs) => {
                json!({"k":"struct","fs":fs.iter().map(|(n,t)| json!({"n":jbytes(n.as_bytes()),"t":t.to_json()})).collect::<Vec<_>>()})
            }
            Enum(vs) => {
                json!({"k":"enum","vs":vs.iter().map(|(n,d)| json!({"n":jbytes(n.as_bytes()),"d":d.to_json()})).collect::<Vec<_>>()})
            }
            Fix(be, i) => json!({"k": if *be {"fixbe"} else {"fixle"}, "w": i.width(), "i": i.name()}),
        }
    }
    pub fn from_json(j: &J) -> Shape {
        use Shape::*;
        let k = j["k"].as_str().expect("shape kind");
        let sub = |f: &str| Box::new(Shape::from_json(&j[f]));
        let subs = |f: &str| j[f].as_array().unwrap().iter().map(Shape::from_json).collect::<Vec<_>>();
        match k {
            "bool" => Bool,
            "u8" => U8,
            "i8" => I8,
            "usize" => Usize,
            "isize" => Isize,
            "f32" => F32,
            "f64" => F64,
            "char" => Char,
            "str" => Str,
            "bytes" => Bytes,
            "unit" => Unit,
            "unit_struct" => UnitStruct,
            "opt" => Opt(sub("t")),
            "newtype_struct" => NewtypeStruct(sub("t")),
            "seq" => Seq(sub("t")),
            "tuple" => Tuple(subs("ts")),
            "tuple_struct" => TupleStruct(subs("ts")),
            "map" => Map(sub("kt"), sub("vt")),
            "struct" => Struct(fields_from(&j["fs"])),
            "enum" => Enum(
                j["vs"].as_array().unwrap().iter().map(|v| (String::from_utf8(unbytes(&v["n"])).unwrap(), Data::from_json(&v["d"]))).collect(),
            ),
            "fixle" | "fixbe" => Fix(k == "fixbe", IntK::from_name(j["i"].as_str().unwrap()).unwrap()),
            _ => Int(IntK::from_name(k).unwrap_or_else(|| panic!("shape kind {k}"))),
        }
    }
    /// true if every value of the shape occupies at least one byte on the wire
    pub fn nonzero_width(&self) -> bool {
        use Shape::*;
        match self {
            Unit | UnitStruct => false,
            NewtypeStruct(t) => t.nonzero_width(),
            Tuple(ts) | TupleStruct(ts) => ts.iter().any(|t| t.nonzero_width()),
            Struct(fs) => fs.iter().any(|(_, t)| t.nonzero_width()),
            _ => true,
        }
    }
}
fn mask(w: u32) -> u128 {
    if w == 128 {
        u128::MAX
    } else {
        (1u128 << w) - 1
    }
}
impl Val {
    pub fn int(k: IntK, bits: u128) -> Val {
        Val::Int(k, bits & mask(k.width()))
    }
    pub fn to_json(&self) -> J {
        use Val::*;
        match self {
            Bool(b) => json!(*b as u8),
            U8(x) => json!(*x),
            I8(x) => json!(*x as u8),
            Int(k, x) => limbs(*x, k.width()),
            F32(x) => jbytes(&x.to_le_bytes()),
            F64(x) => jbytes(&x.to_le_bytes()),
            Char(c) => {
                let mut b = [0u8; 4];
                jbytes(c.encode_utf8(&mut b).as_bytes())
            }
            Str(b) | Bytes(b) => jbytes(b),
            Unit => json!(0),
            None => json!({"some":0}),
            Some(v) => json!({"some":1,"v":v.to_json()}),
            Seq(vs) => J::Array(vs.iter().map(|v| v.to_json()).collect()),
            Map(ps) => J::Array(ps.iter().map(|(a, b)| json!([a.to_json(), b.to_json()])).collect()),
            Variant(i, v) => json!({"i":*i,"v":v.to_json()}),
        }
    }
    pub fn from_json(s: &Shape, j: &J) -> Val {
        use Shape as S;
        let tup = |ts: Vec<&Shape>, j: &J| Val::Seq(ts.iter().zip(j.as_array().unwrap()).map(|(t, x)| Val::from_json(t, x)).collect());
        match s {
            S::Bool => Val::Bool(j.as_u64().unwrap() != 0),
            S::U8 => Val::U8(j.as_u64().unwrap() as u8),
            S::I8 => Val::I8(j.as_u64().unwrap() as u8 as i8),
            S::Int(k) | S::Fix(_, k) => Val::Int(*k, unlimbs(j)),
            S::Usize => Val::Int(IntK::U64, unlimbs(j)),
            S::Isize => Val::Int(IntK::I64, unlimbs(j)),
            S::F32 => Val::F32(unlimbs(j) as u32),
            S::F64 => Val::F64(unlimbs(j) as u64),
            S::Char => Val::Char(String::from_utf8(unbytes(j)).unwrap().chars().next().unwrap()),
            S::Str => Val::Str(unbytes(j)),
            S::Bytes => Val::Bytes(unbytes(j)),
            S::Unit | S::UnitStruct => Val::Unit,
            S::Opt(t) => {
                if j["some"].as_u64().unwrap() == 0 {
                    Val::None
                } else {
                    Val::Some(Box::new(Val::from_json(t, &j["v"])))
                }
            }
            S::NewtypeStruct(t) => Val::from_json(t, j),
            S::Seq(t) => Val::Seq(j.as_array().unwrap().iter().map(|x| Val::from_json(t, x)).collect()),
            S::Tuple(ts) | S::TupleStruct(ts) => tup(ts.iter().collect(), j),
            S::Struct(fs) => tup(fs.iter().map(|(_, t)| t).collect(), j),
            S::Map(kt, vt) => Val::Map(j.as_array().unwrap().iter().map(|p| (Val::from_json(kt, &p[0]), Val::from_json(vt, &p[1]))).collect()),
            S::Enum(vs) => {
                let i = j["i"].as_u64().unwrap() as usize;
                let p = match &vs[i].1 {
                    Data::Unit => Val::Unit,
                    Data::Newtype(t) => Val::from_json(t, &j["v"]),
                    Data::Tuple(ts) => tup(ts.iter().collect(), &j["v"]),
                    Data::Struct(fs) => tup(fs.iter().map(|(_, t)| t).collect(), &j["v"]),
                };
                Val::Variant(i as u32, Box::new(p))
            }
        }
    }
}

// ---------------------------------------------------------------------------------------------
// Serialize: a value paired with its shape goes through exactly the serde method of its kind
// ---------------------------------------------------------------------------------------------
pub struct SV<'a>(pub &'a Shape, pub &'a Val);

macro_rules! int_dispatch {
    ($k:expr, $x:expr, $f:ident) => {
        match $k {
            IntK::U16 => $f!(u16, $x as u16),
            IntK::I16 => $f!(i16, $x as u16 as i16),
            IntK::U32 => $f!(u32, $x as u32),
            IntK::I32 => $f!(i32, $x as u32 as i32),
            IntK::U64 => $f!(u64, $x as u64),
            IntK::I64 => $f!(i64, $x as u64 as i64),
            IntK::U128 => $f!(u128, $x),
            IntK::I128 => $f!(i128, $x as i128),
        }
    };
}

impl<'a> ser::Serialize for SV<'a> {
    fn serialize<S: ser::Serializer>(&self, s: S) -> Result<S::Ok, S::Error> {
        use Shape as Sh;
        use Val as V;
        match (self.0, self.1) {
            (Sh::Bool, V::Bool(x)) => s.serialize_bool(*x),
            (Sh::U8, V::U8(x)) => s.serialize_u8(*x),
            (Sh::I8, V::I8(x)) => s.serialize_i8(*x),
            (Sh::Int(k), V::Int(k2, x)) if k == k2 => match k {
                IntK::U16 => s.serialize_u16(*x as u16),
                IntK::I16 => s.serialize_i16(*x as u16 as i16),
                IntK::U32 => s.serialize_u32(*x as u32),
                IntK::I32 => s.serialize_i32(*x as u32 as i32),
                IntK::U64 => s.serialize_u64(*x as u64),
                IntK::I64 => s.serialize_i64(*x as u64 as i64),
                IntK::U128 => s.serialize_u128(*x),
                IntK::I128 => s.serialize_i128(*x as i128),
            },
            (Sh::Usize, V::Int(IntK::U64, x)) => ser::Serialize::serialize(&(*x as u64 as usize), s),
            (Sh::Isize, V::Int(IntK::I64, x)) => ser::Serialize::serialize(&(*x as u64 as i64 as isize), s),
            (Sh::Fix(be, k), V::Int(k2, x)) if k == k2 => {
                macro_rules! go {
                    ($t:ty, $v:expr) => {{
                        let v: $t = $v;
                        if *be {
                            postcard_fixint::be_ser(&v, s)
                        } else {
                            postcard_fixint::le_ser(&v, s)
                        }
                    }};
                }
                int_dispatch!(k, *x, go)
            }
            (Sh::F32, V::F32(x)) => s.serialize_f32(f32::from_bits(*x)),
            (Sh::F64, V::F64(x)) => s.serialize_f64(f64::from_bits(*x)),
            (Sh::Char, V::Char(c)) => s.serialize_char(*c),
            (Sh::Str, V::Str(b)) => s.serialize_str(std::str::from_utf8(b).expect("generator gives utf8")),
            (Sh::Bytes, V::Bytes(b)) => s.serialize_bytes(b),
            (Sh::Unit, V::Unit) => s.serialize_unit(),
            (Sh::UnitStruct, V::Unit) => s.serialize_unit_struct("US"),
            (Sh::Opt(_), V::None) => s.serialize_none(),
            (Sh::Opt(t), V::Some(v)) => s.serialize_some(&SV(t, v)),
            (Sh::NewtypeStruct(t), v) => s.serialize_newtype_struct("NS", &SV(t, v)),
            (Sh::Seq(t), V::Seq(vs)) => {
                let mut q = s.serialize_seq(Some(vs.len()))?;
                for v in vs {
                    q.serialize_element(&SV(t, v))?;
                }
                q.end()
            }
            (Sh::Tuple(ts), V::Seq(vs)) => {
                let mut q = s.serialize_tuple(ts.len())?;
                for (t, v) in ts.iter().zip(vs) {
                    q.serialize_element(&SV(t, v))?;
                }
                q.end()
            }
            (Sh::TupleStruct(ts), V::Seq(vs)) => {
                let mut q = s.serialize_tuple_struct("TS", ts.len())?;
                for (t, v) in ts.iter().zip(vs) {
                    q.serialize_field(&SV(t, v))?;
                }
                q.end()
            }
            (Sh::Map(kt, vt), V::Map(ps)) => {
                let mut q = s.serialize_map(Some(ps.len()))?;
                for (a, b) in ps {
                    q.serialize_key(&SV(kt, a))?;
                    q.serialize_value(&SV(vt, b))?;
                }
                q.end()
            }
            (Sh::Struct(fs), V::Seq(vs)) => {
                let mut q = s.serialize_struct("ST", fs.len())?;
                for ((n, t), v) in fs.iter().zip(vs) {
                    q.serialize_field(leak(n), &SV(t, v))?;
                }
                q.end()
            }
            (Sh::Enum(vars), V::Variant(i, v)) => {
                let (name, d) = &vars[*i as usize];
                let name = leak(name);
                match (d, &**v) {
                    (Data::Unit, _) => s.serialize_unit_variant("EN", *i, name),
                    (Data::Newtype(t), v) => s.serialize_newtype_variant("EN", *i, name, &SV(t, v)),
                    (Data::Tuple(ts), V::Seq(vs)) => {
                        let mut q = s.serialize_tuple_variant("EN", *i, name, ts.len())?;
                        for (t, v) in ts.iter().zip(vs) {
                            q.serialize_field(&SV(t, v))?;
                        }
                        q.end()
                    }
                    (Data::Struct(fs), V::Seq(vs)) => {
                        let mut q = s.serialize_struct_variant("EN", *i, name, fs.len())?;
                        for ((n, t), v) in fs.iter().zip(vs) {
                            q.serialize_field(leak(n), &SV(t, v))?;
                        }
                        q.end()
                    }
                    _ => Err(ser::Error::custom("shape/value mismatch")),
                }
            }
            _ => Err(ser::Error::custom("shape/value mismatch")),
        }
    }
}

/// thin generic wrappers over `postcard::fixint::{le,be}` (the `#[serde(with = ..)]` adapters)
pub mod postcard_fixint {
    use serde::{Deserializer, Serializer};
    pub trait FixInt: Sized + Copy {
        fn le_ser<S: Serializer>(&self, s: S) -> Result<S::Ok, S::Error>;
        fn be_ser<S: Serializer>(&self, s: S) -> Result<S::Ok, S::Error>;
        fn le_de<'de, D: Deserializer<'de>>(d: D) -> Result<Self, D::Error>;
        fn be_de<'de, D: Deserializer<'de>>(d: D) -> Result<Self, D::Error>;
    }
    macro_rules! imp {
        ($($t:ty),*) => {$(
            impl FixInt for $t {
                fn le_ser<S: Serializer>(&self, s: S) -> Result<S::Ok, S::Error> { postcard::fixint::le::serialize(self, s) }
                fn be_ser<S: Serializer>(&self, s: S) -> Result<S::Ok, S::Error> { postcard::fixint::be::serialize(self, s) }
                fn le_de<'de, D: Deserializer<'de>>(d: D) -> Result<Self, D::Error> { postcard::fixint::le::deserialize(d) }
                fn be_de<'de, D: Deserializer<'de>>(d: D) -> Result<Self, D::Error> { postcard::fixint::be::deserialize(d) }
            }
        )*};
    }
    imp!(u16, i16, u32, i32, u64, i64, u128, i128);
    pub fn le_ser<T: FixInt, S: Serializer>(v: &T, s: S) -> Result<S::Ok, S::Error> {
        v.le_ser(s)
    }
    pub fn be_ser<T: FixInt, S: Serializer>(v: &T, s: S) -> Result<S::Ok, S::Error> {
        v.be_ser(s)
    }
}

// ---------------------------------------------------------------------------------------------
// Deserialize: shape-directed, calls exactly the deserializer method of the kind
// ---------------------------------------------------------------------------------------------
thread_local! {
    /// (ptr, len, kind) of every borrowed str (0) / bytes (1) handed to a visitor, in visiting order
    pub static LEAVES: RefCell<Vec<(usize, usize, u8)>> = RefCell::new(Vec::new());
    /// number of non-borrowed (transient) str/bytes visits
    pub static TRANSIENT: Cell<usize> = Cell::new(0);
    /// use deserialize_string / deserialize_byte_buf instead of deserialize_str / deserialize_bytes
    pub static VIA_OWNED: Cell<bool> = Cell::new(false);
    /// every size_hint a sequence / map access reported (-1 = None), in visiting order
    pub static HINTS: RefCell<Vec<(u8, i64)>> = RefCell::new(Vec::new());
    /// shape used by `DynVal`'s Deserialize impl
    pub static CUR_SHAPE: RefCell<Option<Shape>> = RefCell::new(None);
}
pub fn reset_leaves() {
    LEAVES.with(|l| l.borrow_mut().clear());
    HINTS.with(|l| l.borrow_mut().clear());
    TRANSIENT.with(|t| t.set(0));
}
/// offsets of recorded leaves relative to `base` (usize::MAX marks "outside [base, base+len]")
pub fn hints_json() -> J {
    HINTS.with(|l| J::Array(l.borrow().iter().map(|(k, h)| json!([k, h])).collect()))
}
pub fn leaves_json(base: *const u8, len: usize) -> J {
    LEAVES.with(|l| {
        J::Array(
            l.borrow()
                .iter()
                .map(|(p, n, k)| {
                    let b = base as usize;
                    // an empty borrowed slice may legitimately dangle only at an in-range address
                    if *p >= b && p + n <= b + len {
                        json!([p - b, n, k])
                    } else {
                        json!([-1, n, k])
                    }
                })
                .collect(),
        )
    })
}

pub struct Seed<'a>(pub &'a Shape);
struct TupSeed<'a>(Vec<&'a Shape>);
impl<'de, 'a> Visitor<'de> for TupSeed<'a> {
    type Value = Val;
    fn expecting(&self, f: &mut fmt::Formatter) -> fmt::Result {
        f.write_str("tuple")
    }
    fn visit_seq<A: SeqAccess<'de>>(self, mut a: A) -> Result<Val, A::Error> {
        let mut out = Vec::new();
        for (i, t) in self.0.iter().enumerate() {
            match a.next_element_seed(Seed(t))? {
                Some(v) => out.push(v),
                None => return Err(de::Error::invalid_length(i, &"more")),
            }
        }
        Ok(Val::Seq(out))
    }
}
struct V<'a>(&'a Shape);
impl<'de, 'a> Visitor<'de> for V<'a> {
    type Value = Val;
    fn expecting(&self, f: &mut fmt::Formatter) -> fmt::Result {
        write!(f, "{:?}", self.0)
    }
    fn visit_bool<E>(self, v: bool) -> Result<Val, E> {
        Ok(Val::Bool(v))
    }
    fn visit_u8<E>(self, v: u8) -> Result<Val, E> {
        Ok(Val::U8(v))
    }
    fn visit_i8<E>(self, v: i8) -> Result<Val, E> {
        Ok(Val::I8(v))
    }
    fn visit_u16<E>(self, v: u16) -> Result<Val, E> {
        Ok(Val::Int(IntK::U16, v as u128))
    }
    fn visit_i16<E>(self, v: i16) -> Result<Val, E> {
        Ok(Val::Int(IntK::I16, v as u16 as u128))
    }
    fn visit_u32<E>(self, v: u32) -> Result<Val, E> {
        Ok(Val::Int(IntK::U32, v as u128))
    }
    fn visit_i32<E>(self, v: i32) -> Result<Val, E> {
        Ok(Val::Int(IntK::I32, v as u32 as u128))
    }
    fn visit_u64<E>(self, v: u64) -> Result<Val, E> {
        Ok(Val::Int(IntK::U64, v as u128))
    }
    fn visit_i64<E>(self, v: i64) -> Result<Val, E> {
        Ok(Val::Int(IntK::I64, v as u64 as u128))
    }
    fn visit_u128<E>(self, v: u128) -> Result<Val, E> {
        Ok(Val::Int(IntK::U128, v))
    }
    fn visit_i128<E>(self, v: i128) -> Result<Val, E> {
        Ok(Val::Int(IntK::I128, v as u128))
    }
    fn visit_f32<E>(self, v: f32) -> Result<Val, E> {
        Ok(Val::F32(v.to_bits()))
    }
    fn visit_f64<E>(self, v: f64) -> Result<Val, E> {
        Ok(Val::F64(v.to_bits()))
    }
    fn visit_char<E>(self, v: char) -> Result<Val, E> {
        Ok(Val::Char(v))
    }
    fn visit_borrowed_str<E>(self, v: &'de str) -> Result<Val, E> {
        LEAVES.with(|l| l.borrow_mut().push((v.as_ptr() as usize, v.len(), 0)));
        Ok(Val::Str(v.as_bytes().to_vec()))
    }
    fn visit_str<E>(self, v: &str) -> Result<Val, E> {
        TRANSIENT.with(|t| t.set(t.get() + 1));
        Ok(Val::Str(v.as_bytes().to_vec()))
    }
    fn visit_borrowed_bytes<E>(self, v: &'de [u8]) -> Result<Val, E> {
        LEAVES.with(|l| l.borrow_mut().push((v.as_ptr() as usize, v.len(), 1)));
        Ok(Val::Bytes(v.to_vec()))
    }
    fn visit_bytes<E>(self, v: &[u8]) -> Result<Val, E> {
        TRANSIENT.with(|t| t.set(t.get() + 1));
        Ok(Val::Bytes(v.to_vec()))
    }
    fn visit_unit<E>(self) -> Result<Val, E> {
        Ok(Val::Unit)
    }
    fn visit_none<E>(self) -> Result<Val, E> {
        Ok(Val::None)
    }
    fn visit_some<D: de::Deserializer<'de>>(self, d: D) -> Result<Val, D::Error> {
        if let Shape::Opt(t) = self.0 {
            Ok(Val::Some(Box::new(Seed(t).deserialize(d)?)))
        } else {
            Err(de::Error::custom("some"))
        }
    }
    fn visit_newtype_struct<D: de::Deserializer<'de>>(self, d: D) -> Result<Val, D::Error> {
        if let Shape::NewtypeStruct(t) = self.0 {
            Seed(t).deserialize(d)
        } else {
            Err(de::Error::custom("nt"))
        }
    }
    fn visit_seq<A: SeqAccess<'de>>(self, mut a: A) -> Result<Val, A::Error> {
        if let Shape::Seq(t) = self.0 {
            // like std's collection visitors the hint is consulted (and recorded); it is not trusted for allocation
            let h = a.size_hint();
            HINTS.with(|l| l.borrow_mut().push((0, h.map(|x| x.min(1 << 40) as i64).unwrap_or(-1))));
            let mut out = Vec::new();
            while let Some(v) = a.next_element_seed(Seed(t))? {
                out.push(v);
            }
            Ok(Val::Seq(out))
        } else {
            Err(de::Error::custom("seq"))
        }
    }
    fn visit_map<A: MapAccess<'de>>(self, mut a: A) -> Result<Val, A::Error> {
        if let Shape::Map(kt, vt) = self.0 {
            let h = a.size_hint();
            HINTS.with(|l| l.borrow_mut().push((1, h.map(|x| x.min(1 << 40) as i64).unwrap_or(-1))));
            let mut out = Vec::new();
            while let Some(k) = a.next_key_seed(Seed(kt))? {
                let v = a.next_value_seed(Seed(vt))?;
                out.push((k, v));
            }
            Ok(Val::Map(out))
        } else {
            Err(de::Error::custom("map"))
        }
    }
    fn visit_enum<A: EnumAccess<'de>>(self, a: A) -> Result<Val, A::Error> {
        if let Shape::Enum(vars) = self.0 {
            struct Idx(usize);
            impl<'de> DeserializeSeed<'de> for Idx {
                type Value = u32;
                fn deserialize<D: de::Deserializer<'de>>(self, d: D) -> Result<u32, D::Error> {
                    struct IV(usize);
                    impl<'de> Visitor<'de> for IV {
                        type Value = u32;
                        fn expecting(&self, f: &mut fmt::Formatter) -> fmt::Result {
                            f.write_str("variant index")
                        }
                        fn visit_u64<E: de::Error>(self, v: u64) -> Result<u32, E> {
                            if v < self.0 as u64 {
                                Ok(v as u32)
                            } else {
                                Err(E::invalid_value(de::Unexpected::Unsigned(v), &"variant index"))
                            }
                        }
                        fn visit_u32<E: de::Error>(self, v: u32) -> Result<u32, E> {
                            self.visit_u64(v as u64)
                        }
                    }
                    d.deserialize_identifier(IV(self.0))
                }
            }
            let (i, va) = a.variant_seed(Idx(vars.len()))?;
            let payload = match &vars[i as usize].1 {
                Data::Unit => {
                    va.unit_variant()?;
                    Val::Unit
                }
                Data::Newtype(t) => va.newtype_variant_seed(Seed(t))?,
                Data::Tuple(ts) => va.tuple_variant(ts.len(), TupSeed(ts.iter().collect()))?,
                Data::Struct(fs) => va.struct_variant(fields_of(fs), TupSeed(fs.iter().map(|(_, t)| t).collect()))?,
            };
            Ok(Val::Variant(i, Box::new(payload)))
        } else {
            Err(de::Error::custom("enum"))
        }
    }
}
impl<'de, 'a> DeserializeSeed<'de> for Seed<'a> {
    type Value = Val;
    fn deserialize<D: de::Deserializer<'de>>(self, d: D) -> Result<Val, D::Error> {
        use Shape::*;
        let s = self.0;
        let owned = VIA_OWNED.with(|v| v.get());
        match s {
            Bool => d.deserialize_bool(V(s)),
            U8 => d.deserialize_u8(V(s)),
            I8 => d.deserialize_i8(V(s)),
            Int(k) => match k {
                IntK::U16 => d.deserialize_u16(V(s)),
                IntK::I16 => d.deserialize_i16(V(s)),
                IntK::U32 => d.deserialize_u32(V(s)),
                IntK::I32 => d.deserialize_i32(V(s)),
                IntK::U64 => d.deserialize_u64(V(s)),
                IntK::I64 => d.deserialize_i64(V(s)),
                IntK::U128 => d.deserialize_u128(V(s)),
                IntK::I128 => d.deserialize_i128(V(s)),
            },
            Usize => <usize as de::Deserialize>::deserialize(d).map(|x| Val::Int(IntK::U64, x as u128)),
            Isize => <isize as de::Deserialize>::deserialize(d).map(|x| Val::Int(IntK::I64, x as i64 as u64 as u128)),
            Fix(be, k) => {
                macro_rules! go {
                    ($t:ty, $v:expr) => {{
                        let r: Result<$t, D::Error> =
                            if *be { <$t as postcard_fixint::FixInt>::be_de(d) } else { <$t as postcard_fixint::FixInt>::le_de(d) };
                        r.map(|x| Val::int(*k, x as u128))
                    }};
                }
                int_dispatch!(k, 0u128, go)
            }
            F32 => d.deserialize_f32(V(s)),
            F64 => d.deserialize_f64(V(s)),
            Char => d.deserialize_char(V(s)),
            Str => {
                if owned {
                    d.deserialize_string(V(s))
                } else {
                    d.deserialize_str(V(s))
                }
            }
            Bytes => {
                if owned {
                    d.deserialize_byte_buf(V(s))
                } else {
                    d.deserialize_bytes(V(s))
                }
            }
            Unit => d.deserialize_unit(V(s)),
            UnitStruct => d.deserialize_unit_struct("US", V(s)),
            Opt(_) => d.deserialize_option(V(s)),
            NewtypeStruct(_) => d.deserialize_newtype_struct("NS", V(s)),
            Seq(_) => d.deserialize_seq(V(s)),
            Tuple(ts) => d.deserialize_tuple(ts.len(), TupSeed(ts.iter().collect())),
            TupleStruct(ts) => d.deserialize_tuple_struct("TS", ts.len(), TupSeed(ts.iter().collect())),
            Map(..) => d.deserialize_map(V(s)),
            Struct(fs) => d.deserialize_struct("ST", fields_of(fs), TupSeed(fs.iter().map(|(_, t)| t).collect())),
            Enum(vs) => d.deserialize_enum("EN", leak_names(vs.iter().map(|(n, _)| leak(n)).collect()), V(s)),
        }
    }
}

/// A `Deserialize` type for the *public entry points* (`from_bytes::<DynVal>` …): the shape comes from
/// the thread-local `CUR_SHAPE`.
#[derive(Debug, Clone, PartialEq)]
pub struct DynVal(pub Val);
impl<'de> de::Deserialize<'de> for DynVal {
    fn deserialize<D: de::Deserializer<'de>>(d: D) -> Result<Self, D::Error> {
        let s = CUR_SHAPE.with(|c| c.borrow().clone()).expect("CUR_SHAPE set");
        Seed(&s).deserialize(d).map(DynVal)
    }
}
pub fn with_shape<R>(s: &Shape, f: impl FnOnce() -> R) -> R {
    CUR_SHAPE.with(|c| *c.borrow_mut() = Some(s.clone()));
    reset_leaves();
    let r = f();
    r
}
