//! Seeded generators: random shape trees over all kinds, boundary-structured values.
use crate::val::*;
use rand::{rngs::StdRng, Rng};

pub fn leaf_shape(r: &mut StdRng) -> Shape {
    use Shape::*;
    match r.gen_range(0..20) {
        0 => Bool,
        1 => U8,
        2 => I8,
        3..=10 => Int(IntK::ALL[r.gen_range(0..8)]),
        11 => Usize,
        12 => Isize,
        13 => F32,
        14 => F64,
        15 => Char,
        16 => Str,
        17 => Bytes,
        18 => Unit,
        _ => UnitStruct,
    }
}

/// field / variant names: unique, but not in alphabetical order of declaration (JSON objects are key-sorted)
fn fname(r: &mut StdRng, prefix: char, i: usize) -> String {
    format!("{}{}{}", ['q', 'a', 'z', 'm', 'c', 'x'][r.gen_range(0..6)], prefix, i)
}
pub fn gshape(r: &mut StdRng, d: u32) -> Shape {
    use Shape::*;
    let leaf = r.gen_range(0..100) < if d == 0 { 100 } else { 35 };
    if leaf {
        return leaf_shape(r);
    }
    let sub = |r: &mut StdRng| gshape(r, d - 1);
    match r.gen_range(0..8) {
        0 => Opt(Box::new(sub(r))),
        1 => NewtypeStruct(Box::new(sub(r))),
        2 => Seq(Box::new(nonzw(r, d - 1))),
        3 => Tuple((0..r.gen_range(0..4)).map(|_| sub(r)).collect()),
        4 => TupleStruct((0..r.gen_range(0..4)).map(|_| sub(r)).collect()),
        5 => Map(Box::new(nonzw(r, 0)), Box::new(sub(r))),
        6 => Struct((0..r.gen_range(0..4)).map(|i| (fname(r, 'f', i), sub(r))).collect()),
        _ => Enum(
            (0..r.gen_range(1..5))
                .map(|i| {
                    let d_ = match r.gen_range(0..4) {
                        0 => Data::Unit,
                        1 => Data::Newtype(Box::new(sub(r))),
                        2 => Data::Tuple((0..r.gen_range(0..3)).map(|_| sub(r)).collect()),
                        _ => Data::Struct((0..r.gen_range(0..3)).map(|j| (fname(r, 'g', j), sub(r))).collect()),
                    };
                    (fname(r, 'V', i), d_)
                })
                .collect(),
        ),
    }
}
pub fn nonzw(r: &mut StdRng, d: u32) -> Shape {
    loop {
        let s = gshape(r, d);
        if s.nonzero_width() {
            return s;
        }
    }
}

/// boundary-structured bit patterns of width w
pub fn bits(r: &mut StdRng, w: u32) -> u128 {
    let m = if w == 128 { u128::MAX } else { (1u128 << w) - 1 };
    let x = match r.gen_range(0..10) {
        0 => 0,
        1 => m,
        2 => 1u128 << r.gen_range(0..w),
        3 => (1u128 << r.gen_range(0..w)).wrapping_sub(1),
        4 => (1u128 << r.gen_range(0..w)).wrapping_add(1),
        5 => m ^ ((1u128 << r.gen_range(0..w)).wrapping_sub(1)), // high ones (small negatives)
        6 => (r.gen::<u8>() as u128) << (8 * r.gen_range(0..w / 8)), // single non-zero byte
        _ => {
            let k = r.gen_range(0..=w);
            let x: u128 = r.gen();
            if k == 0 {
                0
            } else if k == 128 {
                x
            } else {
                x & ((1u128 << k) - 1)
            }
        }
    };
    x & m
}
pub fn fbits32(r: &mut StdRng) -> u32 {
    match r.gen_range(0..12) {
        0 => 0,
        1 => 0x8000_0000,
        2 => 1,
        3 => 0x007f_ffff,
        4 => 0x0080_0000,
        5 => 0x7f7f_ffff,
        6 => 0x7f80_0000,
        7 => 0xff80_0000,
        8 => 0x7fc0_0000 | (r.gen::<u32>() & 0x003f_ffff),
        9 => 0x7f80_0001 | (r.gen::<u32>() & 0x003f_ffff) | ((r.gen::<u32>() & 1) << 31),
        _ => r.gen(),
    }
}
pub fn fbits64(r: &mut StdRng) -> u64 {
    match r.gen_range(0..12) {
        0 => 0,
        1 => 1 << 63,
        2 => 1,
        3 => 0x000f_ffff_ffff_ffff,
        4 => 0x0010_0000_0000_0000,
        5 => 0x7fef_ffff_ffff_ffff,
        6 => 0x7ff0_0000_0000_0000,
        7 => 0xfff0_0000_0000_0000,
        8 => 0x7ff8_0000_0000_0000 | (r.gen::<u64>() & 0x0007_ffff_ffff_ffff),
        9 => 0x7ff0_0000_0000_0001 | (r.gen::<u64>() & 0x0007_ffff_ffff_ffff) | ((r.gen::<u64>() & 1) << 63),
        _ => r.gen(),
    }
}
pub const CHARS: &[char] = &[
    'a', 'Z', '\0', '\u{7f}', '\u{80}', 'é', '\u{7ff}', '\u{800}', '€', '\u{d7ff}', '\u{e000}', '\u{ffff}', '\u{10000}', '😀', '\u{10ffff}',
];
pub fn gchar(r: &mut StdRng) -> char {
    if r.gen_range(0..4) == 0 {
        loop {
            if let Some(c) = char::from_u32(r.gen_range(0..0x110000)) {
                return c;
            }
        }
    }
    CHARS[r.gen_range(0..CHARS.len())]
}
pub fn glen(r: &mut StdRng, big: bool) -> usize {
    match r.gen_range(0..40) {
        0 if big => 127,
        1 if big => 128,
        2 if big => 129,
        3 if big => r.gen_range(130..400),
        4..=9 => 0,
        _ => r.gen_range(0..6),
    }
}
pub fn gstr(r: &mut StdRng, big: bool) -> Vec<u8> {
    let n = glen(r, big);
    let mut s = String::new();
    if n > 100 {
        // long strings: mostly ASCII so byte length lands near the varint boundary
        while s.len() < n {
            s.push(if r.gen_range(0..20) == 0 { gchar(r) } else { (b'a' + r.gen_range(0..26)) as char });
        }
    } else {
        for _ in 0..n {
            s.push(gchar(r));
        }
    }
    s.into_bytes()
}
pub fn gval(r: &mut StdRng, s: &Shape, big: bool) -> Val {
    use Shape as S;
    match s {
        S::Bool => Val::Bool(r.gen()),
        S::U8 => Val::U8(r.gen()),
        S::I8 => Val::I8(r.gen()),
        S::Int(k) | S::Fix(_, k) => Val::Int(*k, bits(r, k.width())),
        S::Usize => Val::Int(IntK::U64, bits(r, 64)),
        S::Isize => Val::Int(IntK::I64, bits(r, 64)),
        S::F32 => Val::F32(fbits32(r)),
        S::F64 => Val::F64(fbits64(r)),
        S::Char => Val::Char(gchar(r)),
        S::Str => Val::Str(gstr(r, big)),
        S::Bytes => {
            let n = glen(r, big);
            Val::Bytes((0..n).map(|_| if r.gen_range(0..3) == 0 { 0 } else { r.gen() }).collect())
        }
        S::Unit | S::UnitStruct => Val::Unit,
        S::Opt(t) => {
            if r.gen_range(0..3) == 0 {
                Val::None
            } else {
                Val::Some(Box::new(gval(r, t, big)))
            }
        }
        S::NewtypeStruct(t) => gval(r, t, big),
        S::Seq(t) => {
            let n = if big && matches!(**t, S::U8 | S::Bool | S::I8 | S::Int(_)) { glen(r, true) } else { r.gen_range(0..5) };
            Val::Seq((0..n).map(|_| gval(r, t, false)).collect())
        }
        S::Tuple(ts) | S::TupleStruct(ts) => Val::Seq(ts.iter().map(|t| gval(r, t, big)).collect()),
        S::Map(k, v) => Val::Map((0..r.gen_range(0..4)).map(|_| (gval(r, k, false), gval(r, v, false))).collect()),
        S::Struct(fs) => Val::Seq(fs.iter().map(|(_, t)| gval(r, t, big)).collect()),
        S::Enum(vs) => {
            let i = r.gen_range(0..vs.len());
            let p = match &vs[i].1 {
                Data::Unit => Val::Unit,
                Data::Newtype(t) => gval(r, t, big),
                Data::Tuple(ts) => Val::Seq(ts.iter().map(|t| gval(r, t, big)).collect()),
                Data::Struct(fs) => Val::Seq(fs.iter().map(|(_, t)| gval(r, t, big)).collect()),
            };
            Val::Variant(i as u32, Box::new(p))
        }
    }
}
