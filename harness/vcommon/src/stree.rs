//! Schema trees owned by the harness: generation, leaking into `&'static DataModelType`, independent walkers
//! over the borrowed and the owned representation, single-node mutants. Shared by h_schema and h_dyn.
use postcard_schema::schema::owned::*;
use postcard_schema::schema::*;
use rand::{rngs::StdRng, Rng};
use serde_json::{json, Value as J};

#[derive(Clone, Debug, PartialEq)]
pub enum D {
    Unit,
    Newtype(Box<T>),
    Tuple(Vec<T>),
    Struct(Vec<(String, T)>),
}
#[derive(Clone, Debug, PartialEq)]
pub enum T {
    Prim(&'static str),
    Option(Box<T>),
    Seq(Box<T>),
    Tuple(Vec<T>),
    Map(Box<T>, Box<T>),
    Struct(String, D),
    Enum(String, Vec<(String, D)>),
}
pub const PRIMS: &[&str] = &[
    "Bool", "I8", "U8", "I16", "I32", "I64", "I128", "U16", "U32", "U64", "U128", "Usize", "Isize", "F32", "F64", "Char", "String", "ByteArray", "Unit", "Schema",
];
pub fn name(r: &mut StdRng) -> String {
    // one name in six looks like something a name-handling shortcut would treat specially: raw-identifier prefixes,
    // keywords, surrounding blanks, case, separators, NUL, and lengths around 4/8/16/32-byte block boundaries
    if r.gen_range(0..6) == 0 {
        const ODD: [&str; 20] = ["r#type", "r#", "#r", "r#r#x", "type", "Self", " lead", "trail ", "UPPER", "lower", "with.dot", "a::b", "a\0b", "_", "__", "0", "ünï", "a-b", "tab\t", "\"q\""];
        return match r.gen_range(0..3) {
            0 => ODD[r.gen_range(0..ODD.len())].to_string(),
            1 => {
                let k = [3usize, 4, 5, 7, 8, 9, 15, 16, 17, 31, 32, 33][r.gen_range(0..12)];
                (0..k).map(|_| (b'a' + r.gen_range(0..26)) as char).collect()
            }
            _ => format!("{}_{}", ODD[r.gen_range(0..ODD.len())], r.gen_range(0..100)),
        };
    }
    let n = r.gen_range(0..4);
    (0..n).map(|_| ['a', 'B', '_', 'é', '€', '😀', '0', 'x'][r.gen_range(0..8)]).collect()
}
fn gd(r: &mut StdRng, d: u32, fan: usize) -> D {
    match r.gen_range(0..4) {
        0 => D::Unit,
        1 => D::Newtype(Box::new(gt(r, d, fan))),
        2 => D::Tuple((0..r.gen_range(0..fan)).map(|_| gt(r, d, fan)).collect()),
        _ => D::Struct((0..r.gen_range(0..fan)).map(|_| (name(r), gt(r, d, fan))).collect()),
    }
}
pub fn gt(r: &mut StdRng, d: u32, fan: usize) -> T {
    if d == 0 || r.gen_range(0..10) < 4 {
        return T::Prim(PRIMS[r.gen_range(0..PRIMS.len())]);
    }
    match r.gen_range(0..6) {
        0 => T::Option(Box::new(gt(r, d - 1, fan))),
        1 => T::Seq(Box::new(gt(r, d - 1, fan))),
        2 => {
            // homogeneous tuples (arrays) as well as mixed ones
            if r.gen_range(0..3) == 0 {
                let e = gt(r, d - 1, fan);
                T::Tuple(vec![e; r.gen_range(0..fan)])
            } else {
                T::Tuple((0..r.gen_range(0..fan)).map(|_| gt(r, d - 1, fan)).collect())
            }
        }
        3 => T::Map(Box::new(gt(r, d - 1, fan)), Box::new(gt(r, d - 1, fan))),
        4 => T::Struct(name(r), gd(r, d - 1, fan)),
        _ => T::Enum(name(r), (0..r.gen_range(0..fan)).map(|_| (name(r), gd(r, d - 1, fan))).collect()),
    }
}
pub fn b(s: &str) -> J {
    json!(s.as_bytes())
}
pub fn dj(d: &D) -> J {
    match d {
        D::Unit => json!({"k":"Unit"}),
        D::Newtype(t) => json!({"k":"Newtype","t":tj(t)}),
        D::Tuple(ts) => json!({"k":"Tuple","ts":ts.iter().map(tj).collect::<Vec<_>>()}),
        D::Struct(fs) => json!({"k":"Struct","fs":fs.iter().map(|(n,t)| json!({"name":b(n),"ty":tj(t)})).collect::<Vec<_>>()}),
    }
}
pub fn tj(t: &T) -> J {
    match t {
        T::Prim(k) => json!({ "k": k }),
        T::Option(x) => json!({"k":"Option","t":tj(x)}),
        T::Seq(x) => json!({"k":"Seq","t":tj(x)}),
        T::Tuple(ts) => json!({"k":"Tuple","ts":ts.iter().map(tj).collect::<Vec<_>>()}),
        T::Map(k, v) => json!({"k":"Map","key":tj(k),"val":tj(v)}),
        T::Struct(n, d) => json!({"k":"Struct","name":b(n),"data":dj(d)}),
        T::Enum(n, vs) => json!({"k":"Enum","name":b(n),"variants":vs.iter().map(|(n,d)| json!({"name":b(n),"data":dj(d)})).collect::<Vec<_>>()}),
    }
}
pub fn ub(j: &J) -> String {
    String::from_utf8(j.as_array().unwrap().iter().map(|x| x.as_u64().unwrap() as u8).collect()).unwrap()
}
pub fn d_from(j: &J) -> D {
    match j["k"].as_str().unwrap() {
        "Unit" => D::Unit,
        "Newtype" => D::Newtype(Box::new(t_from(&j["t"]))),
        "Tuple" => D::Tuple(j["ts"].as_array().unwrap().iter().map(t_from).collect()),
        _ => D::Struct(j["fs"].as_array().unwrap().iter().map(|f| (ub(&f["name"]), t_from(&f["ty"]))).collect()),
    }
}
pub fn t_from(j: &J) -> T {
    let k = j["k"].as_str().unwrap();
    match k {
        "Option" => T::Option(Box::new(t_from(&j["t"]))),
        "Seq" => T::Seq(Box::new(t_from(&j["t"]))),
        "Tuple" => T::Tuple(j["ts"].as_array().unwrap().iter().map(t_from).collect()),
        "Map" => T::Map(Box::new(t_from(&j["key"])), Box::new(t_from(&j["val"]))),
        "Struct" => T::Struct(ub(&j["name"]), d_from(&j["data"])),
        "Enum" => T::Enum(ub(&j["name"]), j["variants"].as_array().unwrap().iter().map(|v| (ub(&v["name"]), d_from(&v["data"]))).collect()),
        _ => T::Prim(PRIMS.iter().find(|p| **p == k).expect("prim kind")),
    }
}
fn lk<X>(x: X) -> &'static X {
    Box::leak(Box::new(x))
}
fn ls(s: &str) -> &'static str {
    Box::leak(s.to_string().into_boxed_str())
}
fn lts(ts: &[T]) -> &'static [&'static DataModelType] {
    Box::leak(ts.iter().map(lt).collect::<Vec<_>>().into_boxed_slice())
}
fn ld(d: &D) -> Data {
    match d {
        D::Unit => Data::Unit,
        D::Newtype(t) => Data::Newtype(lt(t)),
        D::Tuple(ts) => Data::Tuple(lts(ts)),
        D::Struct(fs) => Data::Struct(Box::leak(fs.iter().map(|(n, t)| lk(NamedField { name: ls(n), ty: lt(t) })).collect::<Vec<_>>().into_boxed_slice())),
    }
}
/// build the compile-time (borrowed) form of a tree at run time
pub fn lt(t: &T) -> &'static DataModelType {
    use DataModelType as M;
    lk(match t {
        T::Prim(k) => match *k {
            "Bool" => M::Bool, "I8" => M::I8, "U8" => M::U8, "I16" => M::I16, "I32" => M::I32, "I64" => M::I64, "I128" => M::I128,
            "U16" => M::U16, "U32" => M::U32, "U64" => M::U64, "U128" => M::U128, "Usize" => M::Usize, "Isize" => M::Isize,
            "F32" => M::F32, "F64" => M::F64, "Char" => M::Char, "String" => M::String, "ByteArray" => M::ByteArray, "Unit" => M::Unit,
            _ => M::Schema,
        },
        T::Option(x) => M::Option(lt(x)),
        T::Seq(x) => M::Seq(lt(x)),
        T::Tuple(ts) => M::Tuple(lts(ts)),
        T::Map(k, v) => M::Map { key: lt(k), val: lt(v) },
        T::Struct(n, d) => M::Struct { name: ls(n), data: ld(d) },
        T::Enum(n, vs) => M::Enum { name: ls(n), variants: Box::leak(vs.iter().map(|(n, d)| lk(Variant { name: ls(n), data: ld(d) })).collect::<Vec<_>>().into_boxed_slice()) },
    })
}
// ---- independent walkers
pub fn od(d: &OwnedData) -> J {
    match d {
        OwnedData::Unit => json!({"k":"Unit"}),
        OwnedData::Newtype(t) => json!({"k":"Newtype","t":ot(t)}),
        OwnedData::Tuple(ts) => json!({"k":"Tuple","ts":ts.iter().map(ot).collect::<Vec<_>>()}),
        OwnedData::Struct(fs) => json!({"k":"Struct","fs":fs.iter().map(|f| json!({"name":b(&f.name),"ty":ot(&f.ty)})).collect::<Vec<_>>()}),
    }
}
pub fn ot(t: &OwnedDataModelType) -> J {
    use OwnedDataModelType as M;
    let p = |k: &str| json!({ "k": k });
    match t {
        M::Bool => p("Bool"), M::I8 => p("I8"), M::U8 => p("U8"), M::I16 => p("I16"), M::I32 => p("I32"), M::I64 => p("I64"), M::I128 => p("I128"),
        M::U16 => p("U16"), M::U32 => p("U32"), M::U64 => p("U64"), M::U128 => p("U128"), M::Usize => p("Usize"), M::Isize => p("Isize"),
        M::F32 => p("F32"), M::F64 => p("F64"), M::Char => p("Char"), M::String => p("String"), M::ByteArray => p("ByteArray"), M::Unit => p("Unit"),
        M::Schema => p("Schema"),
        M::Option(x) => json!({"k":"Option","t":ot(x)}),
        M::Seq(x) => json!({"k":"Seq","t":ot(x)}),
        M::Tuple(ts) => json!({"k":"Tuple","ts":ts.iter().map(ot).collect::<Vec<_>>()}),
        M::Map { key, val } => json!({"k":"Map","key":ot(key),"val":ot(val)}),
        M::Struct { name, data } => json!({"k":"Struct","name":b(name),"data":od(data)}),
        M::Enum { name, variants } => json!({"k":"Enum","name":b(name),"variants":variants.iter().map(|v| json!({"name":b(&v.name),"data":od(&v.data)})).collect::<Vec<_>>()}),
    }
}
pub fn bd(d: &Data) -> J {
    match d {
        Data::Unit => json!({"k":"Unit"}),
        Data::Newtype(t) => json!({"k":"Newtype","t":bt(t)}),
        Data::Tuple(ts) => json!({"k":"Tuple","ts":ts.iter().map(|t| bt(t)).collect::<Vec<_>>()}),
        Data::Struct(fs) => json!({"k":"Struct","fs":fs.iter().map(|f| json!({"name":b(f.name),"ty":bt(f.ty)})).collect::<Vec<_>>()}),
    }
}
/// walk the borrowed (compile-time) schema
pub fn bt(t: &DataModelType) -> J {
    use DataModelType as M;
    let p = |k: &str| json!({ "k": k });
    match t {
        M::Bool => p("Bool"), M::I8 => p("I8"), M::U8 => p("U8"), M::I16 => p("I16"), M::I32 => p("I32"), M::I64 => p("I64"), M::I128 => p("I128"),
        M::U16 => p("U16"), M::U32 => p("U32"), M::U64 => p("U64"), M::U128 => p("U128"), M::Usize => p("Usize"), M::Isize => p("Isize"),
        M::F32 => p("F32"), M::F64 => p("F64"), M::Char => p("Char"), M::String => p("String"), M::ByteArray => p("ByteArray"), M::Unit => p("Unit"),
        M::Schema => p("Schema"),
        M::Option(x) => json!({"k":"Option","t":bt(x)}),
        M::Seq(x) => json!({"k":"Seq","t":bt(x)}),
        M::Tuple(ts) => json!({"k":"Tuple","ts":ts.iter().map(|t| bt(t)).collect::<Vec<_>>()}),
        M::Map { key, val } => json!({"k":"Map","key":bt(key),"val":bt(val)}),
        M::Struct { name, data } => json!({"k":"Struct","name":b(name),"data":bd(data)}),
        M::Enum { name, variants } => json!({"k":"Enum","name":b(name),"variants":variants.iter().map(|v| json!({"name":b(v.name),"data":bd(&v.data)})).collect::<Vec<_>>()}),
    }
}

// ---- single-node mutants: path / name / order / element kind
fn mutants_d(d: &D, out: &mut Vec<D>) {
    match d {
        D::Unit => out.push(D::Tuple(vec![])),
        D::Newtype(t) => {
            let mut ms = vec![];
            mutants(t, &mut ms);
            out.extend(ms.into_iter().map(|m| D::Newtype(Box::new(m))));
            out.push(D::Tuple(vec![(**t).clone()]));
        }
        D::Tuple(ts) => {
            for i in 0..ts.len() {
                let mut ms = vec![];
                mutants(&ts[i], &mut ms);
                for m in ms.into_iter().take(3) {
                    let mut c = ts.clone();
                    c[i] = m;
                    out.push(D::Tuple(c));
                }
            }
            if ts.len() >= 2 && ts[0] != ts[1] {
                let mut c = ts.clone();
                c.swap(0, 1);
                out.push(D::Tuple(c));
            }
        }
        D::Struct(fs) => {
            for i in 0..fs.len() {
                let mut c = fs.clone();
                c[i].0.push('q');
                out.push(D::Struct(c));
                let mut ms = vec![];
                mutants(&fs[i].1, &mut ms);
                for m in ms.into_iter().take(2) {
                    let mut c = fs.clone();
                    c[i].1 = m;
                    out.push(D::Struct(c));
                }
            }
            if fs.len() >= 2 && fs[0] != fs[1] {
                let mut c = fs.clone();
                c.swap(0, 1);
                out.push(D::Struct(c));
            }
        }
    }
}
pub fn mutants(t: &T, out: &mut Vec<T>) {
    match t {
        T::Prim(k) => {
            let i = PRIMS.iter().position(|p| p == k).unwrap();
            out.push(T::Prim(PRIMS[(i + 1) % PRIMS.len()]));
        }
        T::Option(x) => {
            out.push(T::Seq(x.clone()));
            let mut ms = vec![];
            mutants(x, &mut ms);
            out.extend(ms.into_iter().map(|m| T::Option(Box::new(m))));
        }
        T::Seq(x) => {
            out.push(T::Option(x.clone()));
            let mut ms = vec![];
            mutants(x, &mut ms);
            out.extend(ms.into_iter().map(|m| T::Seq(Box::new(m))));
        }
        T::Tuple(ts) => {
            let mut ds = vec![];
            mutants_d(&D::Tuple(ts.clone()), &mut ds);
            for d in ds {
                if let D::Tuple(c) = d {
                    out.push(T::Tuple(c));
                }
            }
        }
        T::Map(k, v) => {
            if k != v {
                out.push(T::Map(v.clone(), k.clone()));
            }
            let mut ms = vec![];
            mutants(k, &mut ms);
            out.extend(ms.into_iter().take(2).map(|m| T::Map(Box::new(m), v.clone())));
            let mut ms = vec![];
            mutants(v, &mut ms);
            out.extend(ms.into_iter().take(2).map(|m| T::Map(k.clone(), Box::new(m))));
        }
        T::Struct(n, d) => {
            let mut ds = vec![];
            mutants_d(d, &mut ds);
            out.extend(ds.into_iter().map(|m| T::Struct(n.clone(), m)));
            // a rename of the type itself: the key must NOT change (the specification decides)
            out.push(T::Struct(format!("{n}R"), d.clone()));
        }
        T::Enum(n, vs) => {
            for i in 0..vs.len() {
                let mut c = vs.clone();
                c[i].0.push('q');
                out.push(T::Enum(n.clone(), c));
                let mut ds = vec![];
                mutants_d(&vs[i].1, &mut ds);
                for m in ds.into_iter().take(3) {
                    let mut c = vs.clone();
                    c[i].1 = m;
                    out.push(T::Enum(n.clone(), c));
                }
            }
            if vs.len() >= 2 && vs[0] != vs[1] {
                let mut c = vs.clone();
                c.swap(0, 1);
                out.push(T::Enum(n.clone(), c));
            }
            out.push(T::Enum(format!("{n}R"), vs.clone()));
        }
    }
}

