//! A recording `serde::Serializer`: turns any `T: Serialize` into the tree of data-model calls it makes
//! (kinds, names, indices, declared lengths), without going through postcard. `is_human_readable` is
//! false, like postcard's.
use crate::val::{jbytes, limbs};
use serde::ser::{self, Serialize};
use serde_json::{json, Value as J};
use std::fmt;

#[derive(Debug)]
pub struct TErr(pub String);
impl fmt::Display for TErr {
    fn fmt(&self, f: &mut fmt::Formatter<'_>) -> fmt::Result {
        f.write_str(&self.0)
    }
}
impl std::error::Error for TErr {}
impl ser::Error for TErr {
    fn custom<T: fmt::Display>(m: T) -> Self {
        TErr(m.to_string())
    }
}
pub struct Rec;
pub fn call_tree<T: Serialize + ?Sized>(v: &T) -> Result<J, TErr> {
    v.serialize(Rec)
}
fn nm(s: &str) -> J {
    jbytes(s.as_bytes())
}
pub struct SeqRec {
    head: J,
    items: Vec<J>,
    key: Option<J>,
    names: Vec<J>,
}
impl ser::Serializer for Rec {
    type Ok = J;
    type Error = TErr;
    type SerializeSeq = SeqRec;
    type SerializeTuple = SeqRec;
    type SerializeTupleStruct = SeqRec;
    type SerializeTupleVariant = SeqRec;
    type SerializeMap = SeqRec;
    type SerializeStruct = SeqRec;
    type SerializeStructVariant = SeqRec;
    fn is_human_readable(&self) -> bool {
        false
    }
    fn serialize_bool(self, v: bool) -> Result<J, TErr> {
        Ok(json!({"c":"bool","v":v as u8}))
    }
    fn serialize_i8(self, v: i8) -> Result<J, TErr> {
        Ok(json!({"c":"i8","v":v as u8}))
    }
    fn serialize_i16(self, v: i16) -> Result<J, TErr> {
        Ok(json!({"c":"i16","v":limbs(v as u16 as u128, 16)}))
    }
    fn serialize_i32(self, v: i32) -> Result<J, TErr> {
        Ok(json!({"c":"i32","v":limbs(v as u32 as u128, 32)}))
    }
    fn serialize_i64(self, v: i64) -> Result<J, TErr> {
        Ok(json!({"c":"i64","v":limbs(v as u64 as u128, 64)}))
    }
    fn serialize_i128(self, v: i128) -> Result<J, TErr> {
        Ok(json!({"c":"i128","v":limbs(v as u128, 128)}))
    }
    fn serialize_u8(self, v: u8) -> Result<J, TErr> {
        Ok(json!({"c":"u8","v":v}))
    }
    fn serialize_u16(self, v: u16) -> Result<J, TErr> {
        Ok(json!({"c":"u16","v":limbs(v as u128, 16)}))
    }
    fn serialize_u32(self, v: u32) -> Result<J, TErr> {
        Ok(json!({"c":"u32","v":limbs(v as u128, 32)}))
    }
    fn serialize_u64(self, v: u64) -> Result<J, TErr> {
        Ok(json!({"c":"u64","v":limbs(v as u128, 64)}))
    }
    fn serialize_u128(self, v: u128) -> Result<J, TErr> {
        Ok(json!({"c":"u128","v":limbs(v, 128)}))
    }
    fn serialize_f32(self, v: f32) -> Result<J, TErr> {
        Ok(json!({"c":"f32","v":jbytes(&v.to_bits().to_le_bytes())}))
    }
    fn serialize_f64(self, v: f64) -> Result<J, TErr> {
        Ok(json!({"c":"f64","v":jbytes(&v.to_bits().to_le_bytes())}))
    }
    fn serialize_char(self, v: char) -> Result<J, TErr> {
        let mut b = [0u8; 4];
        Ok(json!({"c":"char","v":jbytes(v.encode_utf8(&mut b).as_bytes())}))
    }
    fn serialize_str(self, v: &str) -> Result<J, TErr> {
        Ok(json!({"c":"str","v":jbytes(v.as_bytes())}))
    }
    fn serialize_bytes(self, v: &[u8]) -> Result<J, TErr> {
        Ok(json!({"c":"bytes","v":jbytes(v)}))
    }
    fn serialize_none(self) -> Result<J, TErr> {
        Ok(json!({"c":"none"}))
    }
    fn serialize_some<T: ?Sized + Serialize>(self, v: &T) -> Result<J, TErr> {
        Ok(json!({"c":"some","v":v.serialize(Rec)?}))
    }
    fn serialize_unit(self) -> Result<J, TErr> {
        Ok(json!({"c":"unit"}))
    }
    fn serialize_unit_struct(self, name: &'static str) -> Result<J, TErr> {
        Ok(json!({"c":"unit_struct","name":nm(name)}))
    }
    fn serialize_unit_variant(self, name: &'static str, i: u32, vn: &'static str) -> Result<J, TErr> {
        Ok(json!({"c":"unit_variant","name":nm(name),"i":i,"vn":nm(vn)}))
    }
    fn serialize_newtype_struct<T: ?Sized + Serialize>(self, name: &'static str, v: &T) -> Result<J, TErr> {
        Ok(json!({"c":"newtype_struct","name":nm(name),"v":v.serialize(Rec)?}))
    }
    fn serialize_newtype_variant<T: ?Sized + Serialize>(self, name: &'static str, i: u32, vn: &'static str, v: &T) -> Result<J, TErr> {
        Ok(json!({"c":"newtype_variant","name":nm(name),"i":i,"vn":nm(vn),"v":v.serialize(Rec)?}))
    }
    fn serialize_seq(self, len: Option<usize>) -> Result<SeqRec, TErr> {
        Ok(SeqRec { head: json!({"c":"seq","len":len.map(|x| x as i64).unwrap_or(-1)}), items: vec![], key: None, names: vec![] })
    }
    fn serialize_tuple(self, len: usize) -> Result<SeqRec, TErr> {
        Ok(SeqRec { head: json!({"c":"tuple","len":len}), items: vec![], key: None, names: vec![] })
    }
    fn serialize_tuple_struct(self, name: &'static str, len: usize) -> Result<SeqRec, TErr> {
        Ok(SeqRec { head: json!({"c":"tuple_struct","name":nm(name),"len":len}), items: vec![], key: None, names: vec![] })
    }
    fn serialize_tuple_variant(self, name: &'static str, i: u32, vn: &'static str, len: usize) -> Result<SeqRec, TErr> {
        Ok(SeqRec { head: json!({"c":"tuple_variant","name":nm(name),"i":i,"vn":nm(vn),"len":len}), items: vec![], key: None, names: vec![] })
    }
    fn serialize_map(self, len: Option<usize>) -> Result<SeqRec, TErr> {
        Ok(SeqRec { head: json!({"c":"map","len":len.map(|x| x as i64).unwrap_or(-1)}), items: vec![], key: None, names: vec![] })
    }
    fn serialize_struct(self, name: &'static str, len: usize) -> Result<SeqRec, TErr> {
        Ok(SeqRec { head: json!({"c":"struct","name":nm(name),"len":len}), items: vec![], key: None, names: vec![] })
    }
    fn serialize_struct_variant(self, name: &'static str, i: u32, vn: &'static str, len: usize) -> Result<SeqRec, TErr> {
        Ok(SeqRec { head: json!({"c":"struct_variant","name":nm(name),"i":i,"vn":nm(vn),"len":len}), items: vec![], key: None, names: vec![] })
    }
}
impl SeqRec {
    fn finish(mut self) -> J {
        let c = self.head["c"].as_str().unwrap().to_string();
        if c == "struct" || c == "struct_variant" {
            let fs: Vec<J> = self.names.into_iter().zip(self.items).map(|(n, v)| json!({"n":n,"v":v})).collect();
            self.head["fs"] = J::Array(fs);
        } else if c == "map" {
            self.head["ps"] = J::Array(self.items);
        } else {
            self.head["vs"] = J::Array(self.items);
        }
        self.head
    }
}
impl ser::SerializeSeq for SeqRec {
    type Ok = J;
    type Error = TErr;
    fn serialize_element<T: ?Sized + Serialize>(&mut self, v: &T) -> Result<(), TErr> {
        self.items.push(v.serialize(Rec)?);
        Ok(())
    }
    fn end(self) -> Result<J, TErr> {
        Ok(self.finish())
    }
}
impl ser::SerializeTuple for SeqRec {
    type Ok = J;
    type Error = TErr;
    fn serialize_element<T: ?Sized + Serialize>(&mut self, v: &T) -> Result<(), TErr> {
        self.items.push(v.serialize(Rec)?);
        Ok(())
    }
    fn end(self) -> Result<J, TErr> {
        Ok(self.finish())
    }
}
impl ser::SerializeTupleStruct for SeqRec {
    type Ok = J;
    type Error = TErr;
    fn serialize_field<T: ?Sized + Serialize>(&mut self, v: &T) -> Result<(), TErr> {
        self.items.push(v.serialize(Rec)?);
        Ok(())
    }
    fn end(self) -> Result<J, TErr> {
        Ok(self.finish())
    }
}
impl ser::SerializeTupleVariant for SeqRec {
    type Ok = J;
    type Error = TErr;
    fn serialize_field<T: ?Sized + Serialize>(&mut self, v: &T) -> Result<(), TErr> {
        self.items.push(v.serialize(Rec)?);
        Ok(())
    }
    fn end(self) -> Result<J, TErr> {
        Ok(self.finish())
    }
}
impl ser::SerializeMap for SeqRec {
    type Ok = J;
    type Error = TErr;
    fn serialize_key<T: ?Sized + Serialize>(&mut self, k: &T) -> Result<(), TErr> {
        self.key = Some(k.serialize(Rec)?);
        Ok(())
    }
    fn serialize_value<T: ?Sized + Serialize>(&mut self, v: &T) -> Result<(), TErr> {
        let k = self.key.take().ok_or_else(|| TErr("value without key".into()))?;
        self.items.push(json!([k, v.serialize(Rec)?]));
        Ok(())
    }
    fn end(self) -> Result<J, TErr> {
        Ok(self.finish())
    }
}
impl ser::SerializeStruct for SeqRec {
    type Ok = J;
    type Error = TErr;
    fn serialize_field<T: ?Sized + Serialize>(&mut self, key: &'static str, v: &T) -> Result<(), TErr> {
        self.names.push(nm(key));
        self.items.push(v.serialize(Rec)?);
        Ok(())
    }
    fn end(self) -> Result<J, TErr> {
        Ok(self.finish())
    }
}
impl ser::SerializeStructVariant for SeqRec {
    type Ok = J;
    type Error = TErr;
    fn serialize_field<T: ?Sized + Serialize>(&mut self, key: &'static str, v: &T) -> Result<(), TErr> {
        self.names.push(nm(key));
        self.items.push(v.serialize(Rec)?);
        Ok(())
    }
    fn end(self) -> Result<J, TErr> {
        Ok(self.finish())
    }
}
