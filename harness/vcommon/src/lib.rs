pub mod val;
pub mod gen;
pub mod obs;
pub mod tree;
pub mod stree;
