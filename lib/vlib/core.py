"""Core machinery: building the harness, running TLC (model checking and trace validation),
caching, known findings, evidence, exit codes."""
import re, os, sys, json, re, time, hashlib, subprocess, shutil, signal, glob
from concurrent.futures import ThreadPoolExecutor

VERIF = os.path.dirname(os.path.dirname(os.path.dirname(os.path.abspath(__file__))))
REPO = os.environ.get("VERIF_REPO", "/repo")
HARNESS = os.path.join(VERIF, "harness")
SPEC = os.path.join(VERIF, "spec")
WORK = os.path.join(VERIF, "work")
JAR = "/opt/veriftools/tla/tla2tools.jar:/opt/veriftools/tla/CommunityModules-deps.jar"
NCPU = os.cpu_count() or 8


class ToolError(Exception):
    pass


def sh(cmd, **kw):
    return subprocess.run(cmd, stdout=subprocess.PIPE, stderr=subprocess.STDOUT, text=True, **kw)


# --------------------------------------------------------------------------- hashing / cache
_tree_hash = {}


def tree_hash(roots, exts=None, exclude=("target", "work", ".git", "evidence", "replays", "__pycache__")):
    key = tuple(roots)
    if key in _tree_hash:
        return _tree_hash[key]
    h = hashlib.sha256()
    for root in roots:
        if os.path.isfile(root):
            h.update(root.encode()); h.update(open(root, "rb").read()); continue
        for d, dirs, files in os.walk(root):
            dirs[:] = sorted(x for x in dirs if x not in exclude)
            for f in sorted(files):
                if exts and not f.endswith(exts):
                    continue
                p = os.path.join(d, f)
                h.update(p.encode())
                try:
                    h.update(open(p, "rb").read())
                except OSError:
                    pass
    _tree_hash[key] = h.hexdigest()
    return _tree_hash[key]


def repo_hash():
    return tree_hash([os.path.join(REPO, "source"), os.path.join(REPO, "Cargo.lock"), os.path.join(REPO, "Cargo.toml")])


def verif_hash():
    return tree_hash([SPEC, HARNESS, os.path.join(VERIF, "lib")])


class Ctx:
    def __init__(self, pid, tier, seed, use_cache=True):
        self.id, self.tier, self.use_cache = pid, tier, use_cache
        self.seed_given = seed
        self.seed = abs(int(seed)) % (1 << 40)          # the drivers take unsigned 64-bit seeds (seed*1000+shard)
        self.t0 = time.time()
        self.stages = []
        self.built = set()
        os.makedirs(WORK, exist_ok=True)

    @property
    def quick(self):
        return self.tier == "quick"

    def pick(self, q, t):
        return q if self.tier == "quick" else t


# --------------------------------------------------------------------------- cargo
def cargo_build(ctx, pkg, features=None, no_default=False, target_dir=None):
    key = (pkg, features, no_default, target_dir)
    if key in ctx.built:
        return
    cmd = ["cargo", "build", "--offline", "-q", "-p", pkg]
    if target_dir:
        cmd += ["--target-dir", target_dir]
    if no_default:
        cmd.append("--no-default-features")
    if features:
        cmd += ["--features", features]
    env = dict(os.environ, CARGO_NET_OFFLINE="true")
    # serialise cargo invocations across concurrently running checks
    os.makedirs(WORK, exist_ok=True)
    import fcntl
    with open(os.path.join(WORK, ".cargo.lock"), "w") as lk:
        fcntl.flock(lk, fcntl.LOCK_EX)
        r = sh(cmd, cwd=HARNESS, env=env)
    if r.returncode != 0:
        tail = "\n".join(l for l in r.stdout.splitlines() if "warning" not in l)[-3000:]
        raise ToolError(f"harness build failed for {pkg} (not a verdict on the property):\n{tail}")
    ctx.built.add(key)


def hbin(pkg):
    return os.path.join(HARNESS, "target", "debug", pkg)


# --------------------------------------------------------------------------- TLC
def java_cmd(xmx="3g", serial=True, extra_props=()):
    c = ["java", "-XX:+UseSerialGC" if serial else "-XX:+UseParallelGC", f"-Xmx{xmx}", "-Xss1g", f"-DTLA-Library={SPEC}"]
    c += list(extra_props)
    c += ["-cp", JAR, "tlc2.TLC"]
    return c


_STATES = re.compile(r"(\d+) states generated, (\d+) distinct states found")


def tlc_mc(ctx, name, module, cfg_text, workers=None, timeout=None, xmx="6g", env_extra=None, want_prefix=None, coverage=False):
    """Model-check spec/mc/<module>.tla with the given cfg text. A failure here is a framework/spec error."""
    t0 = time.time()
    workers = workers or min(8, NCPU)
    timeout = timeout or ctx.pick(600, 3600)
    # the result of model checking depends only on the specification, never on /repo
    ckey = hashlib.sha256(json.dumps([tree_hash([SPEC]), name, module, cfg_text, want_prefix, env_extra]).encode()).hexdigest()[:24]
    cfile = os.path.join(WORK, "cache", "mc-" + ckey, "result.json")
    if ctx.use_cache and os.path.exists(cfile):
        res = json.load(open(cfile))
        res["cached"] = True
        ctx.stages.append(res)
        return res
    tag = f"{name}-{os.getpid()}"
    d = os.path.join(WORK, "mc", tag)
    os.makedirs(d, exist_ok=True)
    cfg = os.path.join(d, module + ".cfg")
    open(cfg, "w").write(cfg_text)
    cmd = java_cmd(xmx=xmx, serial=False) + ["-workers", str(workers), "-metadir", os.path.join(d, "md"), "-noGenerateSpecTE", "-cleanup"]
    if coverage:
        cmd += ["-coverage", "1"]
    cmd += ["-config", cfg, os.path.join(SPEC, "mc", module + ".tla")]
    env = dict(os.environ)
    env.update(env_extra or {})
    try:
        r = sh(cmd, env=env, timeout=timeout, cwd=d)
    except subprocess.TimeoutExpired:
        shutil.rmtree(d, ignore_errors=True)
        raise ToolError(f"TLC timed out on {module} ({timeout}s)")
    out = r.stdout
    ok = "Model checking completed. No error has been found." in out
    m = _STATES.findall(out)
    if not ok or not m:
        open(os.path.join(WORK, f"mc-fail-{name}.log"), "w").write(out)
        shutil.rmtree(d, ignore_errors=True)
        errs = [l for l in out.splitlines() if "Error" in l or "violated" in l or "MISMATCH" in l][:8]
        raise ToolError(f"model checking of {module} [{name}] did not complete cleanly: {errs} (log: work/mc-fail-{name}.log)")
    gen, dist = map(int, m[-1])
    lines = []
    if want_prefix:
        lines = [l for l in out.splitlines() if l.startswith(want_prefix)]
    shutil.rmtree(d, ignore_errors=True)
    res = dict(kind="mc", name=name, module=module, states=dist, transitions=gen, wall_s=round(time.time() - t0, 2),
               cmd=" ".join(cmd[-8:]), lines=lines, exhaustive=True)
    if coverage:
        res["coverage_zero"] = [l.strip() for l in out.splitlines() if re.search(r": 0:0$|: 0$", l) and "line" in l][:20]
    res["cached"] = False
    os.makedirs(os.path.dirname(cfile), exist_ok=True)
    json.dump(res, open(cfile, "w"))
    ctx.stages.append(res)
    return res


def apalache_inductive(ctx, name, module_path, timeout=600):
    """Discharge an inductive invariant with Apalache (symbolic, no bound on the constants):
    Init => IndInv (length 0) and IndInv /\\ Next => IndInv' (length 1 from IndInit)."""
    t0 = time.time()
    ckey = hashlib.sha256((open(module_path).read() + name).encode()).hexdigest()[:24]
    cfile = os.path.join(WORK, "cache", "apa-" + ckey, "result.json")
    if ctx.use_cache and os.path.exists(cfile):
        res = json.load(open(cfile))
        res["cached"] = True
        ctx.stages.append(res)
        return res
    outdir = os.path.join(WORK, "apalache", f"{name}-{os.getpid()}")
    cmds = [["apalache-mc", "check", f"--out-dir={outdir}", "--cinit=ConstInit", "--init=Init", "--inv=IndInv", "--length=0", module_path],
            ["apalache-mc", "check", f"--out-dir={outdir}", "--cinit=ConstInit", "--init=IndInit", "--inv=IndInv", "--length=1", module_path]]
    for c in cmds:
        try:
            r = sh(c, timeout=timeout, cwd=WORK)
        except subprocess.TimeoutExpired:
            raise ToolError(f"apalache timed out on {module_path}")
        if "The outcome is: NoError" not in r.stdout:
            open(os.path.join(WORK, f"apalache-fail-{name}.log"), "w").write(r.stdout)
            raise ToolError(f"apalache did not discharge the inductive invariant of {module_path} (log work/apalache-fail-{name}.log)")
    shutil.rmtree(outdir, ignore_errors=True)
    res = dict(kind="inductive", name=name, module=os.path.basename(module_path), obligations=2, discharged=2, wall_s=round(time.time() - t0, 2),
               cmd="apalache-mc check --cinit=ConstInit --init={Init,IndInit} --inv=IndInv --length={0,1} " + os.path.basename(module_path), cached=False)
    os.makedirs(os.path.dirname(cfile), exist_ok=True)
    json.dump(res, open(cfile, "w"))
    ctx.stages.append(res)
    return res


_MIS = re.compile(r'^<<"MISMATCH", (\d+), "(.*)">>$')


def unescape_tla(s):
    return s.replace('\\"', '"').replace("\\\\", "\\")


def tlc_trace_one(module, trace_path, timeout):
    d = os.path.join(WORK, "tr", f"{os.path.basename(trace_path)}-{os.getpid()}")
    os.makedirs(d, exist_ok=True)
    cmd = java_cmd(xmx="3g", extra_props=["-Dtlc2.tool.queue.IStateQueue=StateDeque"]) + [
        "-workers", "1", "-metadir", os.path.join(d, "md"), "-noGenerateSpecTE",
        "-config", os.path.join(SPEC, "trace", module + ".cfg"), os.path.join(SPEC, "trace", module + ".tla")]
    env = dict(os.environ, TRACE=trace_path)
    try:
        r = sh(cmd, env=env, timeout=timeout, cwd=d)
    except subprocess.TimeoutExpired:
        shutil.rmtree(d, ignore_errors=True)
        raise ToolError(f"TLC trace validation timed out on {trace_path}")
    shutil.rmtree(d, ignore_errors=True)
    out = r.stdout
    illtyped = None
    if "Model checking completed. No error has been found." not in out:
        lp = os.path.join(WORK, f"trace-fail-{os.path.basename(trace_path)}.log")
        open(lp, "w").write(out)
        errs = [l for l in out.splitlines() if "Error" in l or "rror:" in l][:6]
        # An event whose recorded result has a different *form* than the specification expects (e.g. another enum variant
        # with a differently typed payload) makes TLC's equality throw while judging that event. That is a disagreement
        # of the implementation with the specification about that event, not a tool failure: report it at the line TLC
        # had reached (the rest of this shard stays unexamined). Anything else that stops TLC remains a tool error.
        m1 = re.search(r"Attempted to (check equality of|compare) [^\n]*(\n[^\n]*){0,3}", out)
        ls = re.findall(r"^/?\\?\s*l = (\d+)\s*$", out, flags=re.M) or re.findall(r"\bl = (\d+)", out)
        if m1 and ls:
            illtyped = (int(ls[-1]), {"bad": ["crash", "illtyped"], "want": "TLC could not evaluate the judgment of this event: " + " ".join(m1.group(0).split())[:300]})
        else:
            raise ToolError(f"trace validation of {trace_path} with {module} failed to run to completion: {errs} (log {lp})")
    mis = []
    if illtyped:
        mis.append(illtyped)
    for l in out.splitlines():
        m = _MIS.match(l.strip())
        if m:
            try:
                exp = json.loads(unescape_tla(m.group(2)))
            except Exception:
                exp = {"raw": m.group(2)}
            mis.append((int(m.group(1)), exp))
    return mis


def _drop_partial_tail(path):
    """a killed child leaves a truncated last line (buffered writer): drop it so the rest of the trace is still examined"""
    if not os.path.exists(path):
        open(path, "w").close()
        return
    lines = open(path).read().split("\n")
    while lines:
        try:
            if lines[-1].strip():
                json.loads(lines[-1])
                break
        except Exception:
            pass
        lines.pop()
    open(path, "w").write("\n".join(lines) + ("\n" if lines else ""))


def run_gen(cmds, timeout):
    """cmds: list of (argv, outfile). Run in parallel. A child killed by a signal (or hung) becomes a crash event; the
    shard is then continued with a fresh seed for the remaining cases (at most 3 times) so the rest is still examined."""
    t_end = time.time() + timeout

    def launch(argv, outp):
        marker = outp + ".case"
        return (subprocess.Popen(argv + ["--marker", marker], stdout=subprocess.DEVNULL, stderr=subprocess.PIPE, text=True), argv, outp, marker)

    def crash_event(outp, marker, argv, sig):
        case = open(marker).read() if os.path.exists(marker) else "?"
        _drop_partial_tail(outp)
        with open(outp, "a") as f:
            f.write(json.dumps({"op": "crash", "signal": sig, "case": case, "argv": [a for a in argv[1:] if not a.startswith("/")]}) + "\n")
        return case

    def continuation(argv, outp, case, k):
        # "name:seed:index" -> run the remaining cases under a different seed, appending to a side file
        try:
            idx = int(case.rsplit(":", 1)[1])
            a = list(argv)
            n = int(a[a.index("--n") + 1])
            seed = int(a[a.index("--seed") + 1])
            if n - idx - 1 <= 0:
                return None
            a[a.index("--n") + 1] = str(n - idx - 1)
            a[a.index("--seed") + 1] = str(seed + 7919 * k)
            part = outp + f".part{k}"
            a[a.index("--out") + 1] = part
            if "--extras" not in a:
                a += ["--extras", "0"]
            return a, part
        except (ValueError, IndexError):
            return None

    procs = [launch(argv, outp) for argv, outp in cmds]
    for p, argv, outp, marker in procs:
        restarts = 0
        cur = (p, argv, outp, marker)
        target = outp
        while True:
            p, argv_c, outp_c, marker_c = cur
            sig = None
            try:
                _, err = p.communicate(timeout=max(1, t_end - time.time()))
            except subprocess.TimeoutExpired:
                p.kill()
                p.communicate()
                sig = "timeout"
            if sig is None and p.returncode < 0:
                sig = signal.Signals(-p.returncode).name
            if sig is None and p.returncode != 0:
                raise ToolError(f"harness driver failed ({p.returncode}): {' '.join(argv_c)}\n{(err or '')[-2000:]}")
            if sig is not None:
                case = crash_event(outp_c, marker_c, argv_c, sig)
            if outp_c != target and os.path.exists(outp_c):
                with open(target, "a") as f:
                    f.write(open(outp_c).read())
                os.remove(outp_c)
            if os.path.exists(marker_c):
                os.remove(marker_c)
            if sig is None or sig == "timeout" or restarts >= 3:
                break
            restarts += 1
            c = continuation(argv, target, case, restarts)
            if c is None:
                break
            cur = launch(c[0], c[1])
    for _, _, outp, marker in procs:
        # normalise: drop blank lines
        lines = [l for l in open(outp).read().splitlines() if l.strip()]
        open(outp, "w").write("\n".join(lines) + ("\n" if lines else ""))


def trace_stage(ctx, name, cmds, module, nontrivial=None, timeout=None, keep=False, require=None):
    """Generate traces with the harness (cmds: list of (argv, relative outfile name)) and validate each with TLC.
    Results are cached under work/cache/<key> (key covers /repo sources, /verif spec+harness, argv)."""
    t0 = time.time()
    timeout = timeout or ctx.pick(900, 7200)
    key = hashlib.sha256(json.dumps([repo_hash(), verif_hash(), name, module, [c[0][1:] for c in cmds]]).encode()).hexdigest()[:24]
    cdir = os.path.join(WORK, "cache", key)
    rfile = os.path.join(cdir, "result.json")
    if ctx.use_cache and os.path.exists(rfile):
        res = json.load(open(rfile))
        res["cached"] = True
        ctx.stages.append(res)
        return res
    shutil.rmtree(cdir, ignore_errors=True)
    os.makedirs(cdir)
    full = [(argv + ["--out", os.path.join(cdir, o)], os.path.join(cdir, o)) for argv, o in cmds]
    run_gen(full, timeout)
    files = [o for _, o in full]
    with ThreadPoolExecutor(max_workers=NCPU) as ex:
        results = list(ex.map(lambda f: tlc_trace_one(module, f, timeout) if os.path.getsize(f) > 0 else [], files))
    events = 0
    classes = {}
    outcomes = 0
    distinct = set()
    mismatches = []
    samples = []
    ops = {}
    for f, mis in zip(files, results):
        lines = open(f).read().splitlines()
        events += len(lines)
        for i, l in enumerate(lines):
            hsh = hashlib.md5(l.encode()).digest()[:8]
            try:
                ev = json.loads(l)
            except Exception:
                ev = {"op": "unparsable"}
            op = ev.get("op", "?")
            ops[op] = ops.get(op, 0) + 1
            outcomes += _n_outcomes(ev)
            for c in _classes(ev):
                classes[c] = classes.get(c, 0) + 1
            if nontrivial is None or nontrivial(ev):
                distinct.add(hsh)
            if len(samples) < 4 and i % 997 == 3:
                samples.append(_shorten(ev))
        if not samples and lines:
            samples.append(_shorten(json.loads(lines[0])))
        for ln, exp in mis:
            ev = json.loads(lines[ln - 1]) if 0 < ln <= len(lines) else {"op": "?"}
            mismatches.append({"file": os.path.basename(f), "line": ln, "event": ev, "expected": exp})
    # the demonstration re-validates a falsified copy of one trace: take the smallest non-empty shard
    nonempty = sorted((f for f in files if os.path.getsize(f) > 0), key=os.path.getsize)
    demo = binding_demo(module, nonempty[0]) if nonempty else None
    if demo and demo["missed"]:
        print(f"WARNING: binding demonstration for stage {name}: falsified events accepted by the specification: {demo['missed']}", file=sys.stderr)
    missing = [c for c in (require or []) if not any(k == c or k.startswith(c) for k in classes)]
    res = dict(kind="trace", name=name, module=module, events=events, outcomes=outcomes, classes=dict(sorted(classes.items())[:400]), missing_classes=missing, distinct_nontrivial=len(distinct), ops=ops, binding_demo=demo,
               mismatches=mismatches, samples=samples, wall_s=round(time.time() - t0, 2),
               cmd=" ".join([os.path.basename(cmds[0][0][0])] + cmds[0][0][1:]) + f"  (x{len(cmds)} shards) | TLC {module}", cached=False)
    if not keep:
        for f in files:
            os.remove(f)
    json.dump(res, open(rfile, "w"))
    ctx.stages.append(res)
    _prune_cache()
    return res


# --------------------------------------------------------------------------- binding demonstration (anti-vacuity)
def _corrupt(ev):
    """Return a copy of the event with one recorded result field falsified (None if this event offers nothing to falsify).
    The trace specification must then reject exactly that line."""
    import copy
    e = copy.deepcopy(ev)
    op = e.get("op")
    try:
        if op == "rt" and e.get("res", {}).get("ok") == 1 and e["res"].get("used", -1) >= 0:
            e["res"]["used"] += 1
        elif op == "dec":
            if e["res"].get("ok") == 1:
                e["res"]["used"] += 1
            else:
                e["res"]["err"] = "End" if e["res"]["err"] != "End" else "BadVarint"
        elif op == "rtt" and "used" in e and e["used"] >= 0:
            e["used"] += 1
        elif op == "intb":
            e["outs"][7][2] += 1
        elif op == "charb" and len(e["outs"][65]) == 3:
            e["outs"][65][1] += 1
        elif op == "decb":
            e["outs"][5] = [0, "End"] if e["outs"][5][0] == 1 else [1, [0, 0], 1]
        elif op == "fixb":
            e["outs"][3][2] += 1
        elif op == "serb" and e["outs"][0]["res"].get("ok") == 1:
            e["outs"][0]["res"]["bytes"].append(0)
        elif op == "cobs_ops" and any(c[0] == "patch" for c in e["calls"]):
            c = next(c for c in e["calls"] if c[0] == "patch")
            c[1] = c[2]          # a patch at the cursor: one past what has been produced
        elif op == "userflavor" and len(e["calls"]) >= 2:
            e["calls"].pop(0)
        elif op in ("cobs_take", "cobs_from"):
            if e["res"].get("ok") == 1:
                e["res"]["rem_len"] += 1
                e["after"] = e["after"] + [0]
            else:
                e["res"]["err"] = "End" if e["res"]["err"] != "End" else "BadEncoding"
        elif op == "crc_deb":
            e["cases"][0][2] = [0, "BadCrc"]
        elif op == "feed":
            if e.get("kind") in ("Consumed", "Success", "DeserError"):
                e["rem_len"] += 1        # a result that claims to have consumed one byte less
            else:
                e["idx"] += 1            # OverFull may consume any amount: falsify the reported fill level instead
        elif op == "link_done" and e.get("clean") and e.get("delivered"):
            e["delivered"] = []          # an owed message that never came out
        elif op == "io_ser":
            e["written"].append(0)
        elif op == "io_de" and e["msgs"] and e["msgs"][0]["res"].get("ok") == 1:
            e["msgs"][0]["rd_after"] += 1
        elif op == "df_pop":
            e["res"] = (e["res"] + 1) if e["res"] >= 0 else 0
        elif op == "df_take":
            e["ok"] = 1 - e["ok"]
            e.setdefault("off", 0)
            e.setdefault("len", 0)
        elif op == "alloc" and e.get("assert") == 1:
            e["alloc_peak"] = 10 ** 8
        elif op == "maxsize":
            e["declared"] -= 1
        elif op == "schema_tree" and "key_owned" in e:
            e["key_owned"][0] ^= 1
        elif op == "schema_big" and "key_owned" in e:
            e["decoded_rest"] = 7        # a decode that left bytes of a long array unread
        elif op == "conform" and "key_type" in e:
            e["key_type"][0] ^= 1
        elif op == "dyn" and e["dyn_bytes"].get("ok") == 1 and e["dyn_json"].get("ok") == 1:
            e["dyn_bytes"]["bytes"].append(0)
            e["static_bytes"] = e["static_bytes"]
        elif op == "dyn_ser" and e["res"].get("ok") == 1 and e.get("reenc", {}).get("ok") == 1:
            e["reenc"]["bytes"].append(0)
        elif op == "dyn_de":
            e["alloc_peak"] = 10 ** 9
        else:
            return None
    except (KeyError, IndexError, TypeError):
        return None
    return e if e != ev else None


def binding_demo(module, path, timeout=300):
    """Falsify one result field in one event of every kind in (a prefix of) a recorded trace and require the trace
    specification to reject exactly those lines. Demonstrates that the specification is bound to what was recorded."""
    lines = open(path).read().splitlines()[:1500]
    if not lines:
        return None
    done, chosen = {}, {}
    out = []
    for i, l in enumerate(lines):
        ev = json.loads(l)
        op = ev.get("op")
        if isinstance(ev.get("cases"), list) and len(ev["cases"]) > 400:
            # batch events with tens of thousands of corruption cases: a prefix is enough for the demonstration
            ev["cases"] = ev["cases"][:400]
            l = json.dumps(ev)
        if op not in done or (done[op] < 2 and i - chosen[op] > 20):
            c = _corrupt(ev)
            if c is not None:
                done[op] = done.get(op, 0) + 1
                chosen[op] = i
                out.append(json.dumps(c))
                chosen.setdefault("lines", []).append((i + 1, op))
                continue
        out.append(l)
    cp = path + ".corrupt"
    open(cp, "w").write("\n".join(out) + "\n")
    try:
        mis = {ln for ln, _ in tlc_trace_one(module, cp, timeout)}
    finally:
        os.remove(cp)
    want = chosen.get("lines", [])
    missed = [(ln, op) for ln, op in want if ln not in mis]
    return {"falsified_events": len(want), "rejected": len(want) - len(missed), "missed": missed[:10], "ops": sorted({op for _, op in want})}


def _prune_cache(maxn=60):
    c = os.path.join(WORK, "cache")
    ds = sorted(glob.glob(os.path.join(c, "*")), key=os.path.getmtime)
    for d in ds[:-maxn]:
        shutil.rmtree(d, ignore_errors=True)


def _classes(ev):
    """coarse outcome classes of an event, for the coverage table in the evidence (and the required-class guard)"""
    op = ev.get("op", "?")
    out = []
    def rc(r):
        if not isinstance(r, dict):
            return "?"
        if r.get("ok") == 1:
            return "ok"
        return str(r.get("err", "?"))
    if op in ("rt", "dec", "cobs_take", "cobs_from", "io_ser", "cstr", "refused", "dyn_ser", "dyn_de", "df_end", "cobs_ops"):
        out.append(f"{op}:{rc(ev.get('res'))}")
        if op == "dec" and isinstance(ev.get("shape"), dict):
            out.append(f"dec-shape:{ev['shape'].get('k')}")
        if op == "rt":
            out.append(f"enc:{ev.get('enc')}")
            out.append(f"dec-entry:{ev.get('dec')}")
    elif op == "feed":
        out.append(f"feed:{ev.get('mode')}:{ev.get('kind')}")
    elif op == "serb":
        sig = "plain" if not ev.get("stack") else "+".join(l.get("l", "?") for l in ev["stack"])
        for o in ev.get("outs", []):
            out.append(f"serb:{sig}:{o.get('storage')}:{rc(o.get('res'))}")
    elif op == "crc_deb":
        w = ev.get("alg", {}).get("s")
        for c in ev.get("cases", []):
            out.append(f"crc{w}:{c[0]}:{'ok' if c[2][0] == 1 else c[2][1]}")
    elif op == "io_de":
        for m in ev.get("msgs", []):
            out.append(f"io_de:{ev.get('entry')}:{rc(m.get('res'))}")
    elif op == "alloc":
        out.append(f"alloc:{ev.get('entry')}:{ev.get('ty')}")
    elif op == "schema_tree":
        out.append(f"schema_tree:{ev.get('tree', {}).get('k')}")
        if ev.get("kind") == "deep":
            out.append("schema_tree:deep")
    elif op == "conform":
        out.append(f"conform:{ev.get('ty')}")
    elif op == "maxsize":
        out.append(f"maxsize:{ev.get('shape', {}).get('k')}")
    elif op == "dyn":
        out.append(f"dyn:{rc(ev.get('dyn_bytes'))}:{rc(ev.get('dyn_json'))}")
    else:
        out.append(op)
    return out


def _n_outcomes(ev):
    """number of individual implementation outcomes an event carries (batch events carry many)"""
    for k in ("outs", "cases", "msgs"):
        v = ev.get(k)
        if isinstance(v, list):
            return max(1, len(v))
    return 1


def _shorten(ev, lim=600):
    s = json.dumps(ev)
    if len(s) <= lim:
        return ev
    return {"op": ev.get("op"), "truncated": s[:lim] + "..."}


# --------------------------------------------------------------------------- known findings
def load_findings():
    p = os.path.join(VERIF, "known_findings.json")
    if not os.path.exists(p):
        return []
    return json.load(open(p)).get("findings", [])


def _get(obj, path):
    for k in path.split("."):
        if isinstance(obj, dict) and k in obj:
            obj = obj[k]
        else:
            return None
    return obj


def sig_match(sig, mm):
    """sig: {"event.op": "dyn", "event.res.at~": "de.rs", "tag": "..."}; '~' suffix = substring match"""
    for k, want in sig.items():
        sub = k.endswith("~")
        kk = k[:-1] if sub else k
        got = _get(mm, kk)
        if sub:
            if not (isinstance(got, str) and want in got):
                return False
        elif got != want:
            return False
    return True


# --------------------------------------------------------------------------- property runner
def run_property(ctx, spec):
    """spec: dict(run=callable(ctx) -> None (appends to ctx.stages), tags=set|None, rule=str, assumptions=[...])"""
    spec["run"](ctx)
    tags = spec.get("tags")
    findings = [f for f in load_findings() if f["property"] == ctx.id]
    viol, known = [], {}
    for st in ctx.stages:
        for mm in st.get("mismatches", []):
            mt = set(mm["expected"].get("bad", [])) if isinstance(mm["expected"], dict) else set()
            mm["tags"] = sorted(mt)
            mm["stage"] = st["name"]
            if mt & {"specmodel", "crcmodel"}:
                # the specification disagrees with itself / with a catalogue constant: never a verdict on the code
                raise ToolError(f"specification self-check failed in stage {st['name']}: {sorted(mt)} on {json.dumps(mm['event'])[:300]}")
            if "select" in spec:
                if not spec["select"](mm):
                    continue
            elif tags is not None and mt and not (mt & tags):
                continue
            if tags is not None and not mt and mm["event"].get("op") not in spec.get("ops_untagged", ()):
                # untagged mismatch (crash, unknown op, ...) counts for every property using the stage
                pass
            f = next((f for f in findings if sig_match(f["signature"], mm)), None)
            if f:
                known.setdefault(f["id"], []).append(mm)
            else:
                viol.append(mm)
    # the witness of every listed finding is re-executed on the current tree: the KNOWN-FINDING line is printed only while it still fails
    for f in findings:
        w = f.get("witness")
        if not w:
            continue
        cargo_build(ctx, w["pkg"])
        d = os.path.join(WORK, "witness")
        os.makedirs(d, exist_ok=True)
        inp, outp = os.path.join(d, f"{f['id']}.in.ndjson"), os.path.join(d, f"{f['id']}.out.ndjson")
        open(inp, "w").write(json.dumps(w["event"]) + "\n")
        r = sh([hbin(w["pkg"]), "replay", "--in", inp, "--out", outp])
        if r.returncode != 0:
            raise ToolError(f"witness replay of {f['id']} failed: {r.stdout[-500:]}")
        for ln, exp in tlc_trace_one(w["module"], outp, 600):
            mm = {"event": json.loads(open(outp).read().splitlines()[ln - 1]), "expected": exp, "stage": "witness", "module": w["module"],
                  "tags": sorted(exp.get("bad", [])) if isinstance(exp, dict) else []}
            if sig_match(f["signature"], mm):
                known.setdefault(f["id"], []).append(mm)
            else:
                viol.append(mm)
    for f in findings:
        if f["id"] in known:
            print(f"KNOWN-FINDING: property={ctx.id} {f['what']} [{len(known[f['id']])} occurrence(s) this run]")
    rdir = os.path.join(VERIF, "replays", ctx.id)
    paths = []
    if viol:
        shutil.rmtree(rdir, ignore_errors=True)
        os.makedirs(rdir, exist_ok=True)
        for i, mm in enumerate(viol[:50]):
            p = os.path.join(rdir, f"{i}.json")
            json.dump({"property": ctx.id, "stage": mm["stage"], "module": mm.get("module") or next(s["module"] for s in ctx.stages if s["name"] == mm["stage"]),
                       "tags": mm["tags"], "event": mm["event"], "expected_by_spec": mm["expected"]}, open(p, "w"), indent=1)
            paths.append(p)
    write_evidence(ctx, spec, len(viol), known)
    for p in paths[:10]:
        print(f"VIOLATION property={ctx.id} replay={os.path.relpath(p, VERIF)}")
    if viol:
        print(f"{len(viol)} violation(s) in total; first event: {json.dumps(viol[0]['event'])[:400]}")
        print(f"expected by the specification: {json.dumps(viol[0]['expected'])[:400]}")
        return 1
    # vacuity guard: with no violation to report, a run that did not exercise a required outcome class proves nothing
    for st in ctx.stages:
        if st.get("missing_classes"):
            raise ToolError(f"stage {st['name']}: required outcome classes were not exercised by this run (refusing to claim the property): {st['missing_classes']}")
    tot_ev = sum(s.get("events", 0) for s in ctx.stages)
    tot_st = sum(s.get("states", 0) for s in ctx.stages)
    print(f"OK property={ctx.id} tier={ctx.tier}: {tot_st} model states, {tot_ev} implementation events validated by TLC, "
          f"{sum(len(v) for v in known.values())} known-finding occurrence(s), {round(time.time() - ctx.t0, 1)}s")
    return 0


def write_evidence(ctx, spec, nviol, known):
    mc = [s for s in ctx.stages if s["kind"] == "mc"]
    tr = [s for s in ctx.stages if s["kind"] == "trace"]
    samples = []
    for s in tr:
        samples += s.get("samples", [])[:3]
    for s in mc:
        samples += [{"model": s["module"], "instance": s["name"], "states": s["states"]}]
    for s in ctx.stages:
        if s["kind"] == "inductive":
            samples += [{"inductive_invariant": s["module"], "obligations": s["obligations"], "discharged": s["discharged"], "checker": "apalache"}]
    cov = dict(
        states=sum(s["states"] for s in mc),
        transitions=sum(s["transitions"] for s in mc),
        traces_validated_against_impl=sum(s["events"] for s in tr),
        implementation_outcomes_validated=sum(s.get("outcomes", s["events"]) for s in tr),
        evaluations=sum(s["events"] for s in tr) + sum(s["transitions"] for s in mc),
        distinct_nontrivial=sum(s["distinct_nontrivial"] for s in tr),
        rule=spec.get("rule", ""),
        samples=samples[:12] or [{"note": "no samples"}],
        exhaustive=all(s.get("exhaustive", False) for s in mc) if mc else False,
        exhaustive_note="model-checking stages enumerate their bounded state spaces completely; trace stages are seeded samples plus listed exhaustive sub-domains",
        stages=[{k: v for k, v in s.items() if k not in ("mismatches", "samples", "lines")} for s in ctx.stages],
        mismatches_total=sum(len(s.get("mismatches", [])) for s in tr),
        known_finding_occurrences={k: len(v) for k, v in known.items()},
        checker_cmd="; ".join(s["cmd"] for s in ctx.stages)[:2000],
        repo_tree_sha256=repo_hash()[:16],
    )
    ev = dict(property_id=ctx.id, tier=ctx.tier, seed=int(ctx.seed_given), level="model_checking", coverage=cov,
              assumptions=spec.get("assumptions", []), wall_s=round(time.time() - ctx.t0, 2), violations=nviol)
    os.makedirs(os.path.join(VERIF, "evidence"), exist_ok=True)
    json.dump(ev, open(os.path.join(VERIF, "evidence", ctx.id + ".json"), "w"), indent=1)


def replay(ctx, path, spec):
    """Re-execute the recorded event on the current tree (harness 'replay' subcommand) and re-validate it with TLC."""
    rec = json.load(open(path))
    ev = rec["event"]
    pkg = spec.get("replay_pkg", "h_core")
    if rec.get("stage", "").endswith("-alloc"):
        pkg = "h_schema_alloc"        # events of the alloc-only configuration of postcard-schema
    elif rec.get("stage", "") == "io-eio04":
        pkg = None
    if pkg is None:
        raise ToolError("events of the embedded-io 0.4 build are replayed by rerunning the thorough check (separate feature set)")
    cargo_build(ctx, pkg)
    d = os.path.join(WORK, "replay")
    os.makedirs(d, exist_ok=True)
    inp, outp = os.path.join(d, "in.ndjson"), os.path.join(d, "out.ndjson")
    open(inp, "w").write(json.dumps(ev) + "\n")
    r = sh([hbin(pkg), "replay", "--in", inp, "--out", outp])
    if r.returncode != 0:
        print(r.stdout[-2000:])
        raise ToolError("harness replay failed (op not replayable?)")
    mis = tlc_trace_one(rec["module"], outp, 600)
    new = open(outp).read().strip()
    print("re-executed event:", new[:1000])
    if mis:
        print("specification expects:", json.dumps(mis[0][1])[:1000])
        print(f"VIOLATION property={ctx.id} replay={path}")
        return 1
    print("the re-executed event is accepted by the specification")
    return 0


# --------------------------------------------------------------------------- setup
def setup():
    ctx = Ctx("setup", "quick", 1)
    t0 = time.time()
    for pkg in HARNESS_PKGS:
        cargo_build(ctx, pkg)
    bad = 0
    for f in sorted(glob.glob(os.path.join(SPEC, "*.tla")) + glob.glob(os.path.join(SPEC, "mc", "*.tla")) + glob.glob(os.path.join(SPEC, "trace", "*.tla")) + glob.glob(os.path.join(SPEC, "apalache", "*.tla"))):
        r = sh(["java", f"-DTLA-Library={SPEC}", "-cp", JAR, "tla2sany.SANY", f], cwd=os.path.dirname(f))
        if "Semantic errors" in r.stdout or "Parse Error" in r.stdout or "Fatal" in r.stdout or r.returncode != 0:
            print(f"SANY failed on {f}:\n{r.stdout[-1500:]}")
            bad += 1
    print(f"setup: harness built, TLA+ modules parsed ({bad} failures) in {round(time.time() - t0)}s")
    return 0 if bad == 0 else 2


HARNESS_PKGS = ["h_core", "h_schema", "h_maxsize", "h_dyn", "h_schema_alloc"]
