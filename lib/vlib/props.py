"""Property registry: which model-checking instances and which recorded-trace validations decide each property."""
import os
from . import core
from .core import tlc_mc, trace_stage, cargo_build, hbin, SPEC, WORK

NSH = 16  # shards

WIRE_ASSUME = [
    "TLC, the CommunityModules Json/IOUtils modules and the Python driver are trusted",
    "the harness's dynamic Shape/Val <-> serde bridge calls exactly the serde method of each kind (hand-written, reviewed)",
    "usize/isize are 64-bit on this host",
    "bounded model checking covers only the stated constants; the real widths are bound through traces/vectors",
]


def tmpl(name, **kw):
    return open(os.path.join(SPEC, "mc", name + ".cfg.tmpl")).read() % kw


# --------------------------------------------------------------------------- model-checking stages
ALPHA12 = "{0,1,2,3,4,127,128,129,131,132,254,255}"


def mc_varint(ctx):
    """writer/reader loop machines vs functional definitions: W=16 exhaustive; scaled widths; 32/64/128 structured"""
    tlc_mc(ctx, "varint-w16-full", "MC_Varint", tmpl("MC_Varint", W=16, Full="TRUE", RAlpha=ALPHA12, RMaxLen=4))
    for w in ctx.pick([9, 13], [8, 9, 10, 11, 12, 13, 15]):  # not 14: max_of_last_byte is meaningless when 7 divides W (never the case for real widths)
        tlc_mc(ctx, f"varint-w{w}-full", "MC_Varint", tmpl("MC_Varint", W=w, Full="TRUE", RAlpha=ALPHA12, RMaxLen=(w + 6) // 7 + 1))
    for w in (32, 64, 128):
        tlc_mc(ctx, f"varint-w{w}-structured", "MC_Varint",
               tmpl("MC_Varint", W=w, Full="FALSE", RAlpha="{0,1,2,3,4,7,8,15,16,31,32,63,64,127,128,255}", RMaxLen=0))


def mc_wire(ctx, emit=False):
    # quick: all depth-1 shapes with sequences up to 2; thorough adds the nested (depth-2) shapes with sequences up to 1
    # (depth 2 with longer sequences multiplies the re-padded encodings beyond what finishes in an hour)
    insts = [(1, 2)] + ([(2, 1)] if ctx.tier == "thorough" else [])
    res = None
    for depth, maxseq in insts:
        cfg = tmpl("MC_Wire", Depth=depth, MaxSeq=maxseq, Emit="TRUE" if emit else "FALSE")
        r = tlc_mc(ctx, f"wire-shapes-d{depth}s{maxseq}" + ("-vec" if emit else ""), "MC_Wire", cfg, workers=12,
                   want_prefix='<<"VEC"' if emit else None, timeout=ctx.pick(900, 3600))
        if res is None:
            res = r
        elif emit:
            res["lines"] = list(dict.fromkeys(res.get("lines", []) + r.pop("lines", [])))
            r["lines"] = []
    return res


# --------------------------------------------------------------------------- trace stages
def wire_trace(ctx):
    cargo_build(ctx, "h_core")
    n = ctx.pick(300, 4000)
    cmds = [([hbin("h_core"), "wire", "--n", str(n), "--seed", str(ctx.seed * 1000 + i), "--depth", str(3 if i % 4 else 4)], f"wire-{i}.ndjson") for i in range(NSH)]
    req = [f"dec:{k}" for k in ("ok", "End", "BadVarint", "BadBool", "BadOption", "BadUtf8", "BadChar", "Custom")]
    req += [f"enc:{e}" for e in ("to_slice", "to_vec", "to_allocvec", "to_stdvec", "to_extend", "to_io", "to_eio")]
    req += [f"dec-entry:{e}" for e in ("take_from_bytes", "from_bytes", "from_io", "from_eio", "deserializer")]
    req += [f"dec-shape:{k}" for k in ("u16", "i16", "u32", "i32", "u64", "i64", "u128", "i128", "usize", "isize", "f32", "f64", "char", "str", "bytes", "bool",
                                       "opt", "seq", "map", "tuple", "struct", "enum", "newtype_struct", "tuple_struct", "unit", "unit_struct", "u8", "i8")]
    req += ["seqhdr", "sequnk", "collected", "cstr:ok", "refused"]
    return trace_stage(ctx, "wire", cmds, "Trace_Wire", nontrivial=lambda e: not (e.get("op") == "dec" and e.get("input") == []), require=req)


def exh16_trace(ctx):
    cargo_build(ctx, "h_core")
    extra = ["--full3", "1", "--charall", "1"] if ctx.tier == "thorough" else ["--n3", "1024", "--n4", "256"]
    cmds = [([hbin("h_core"), "wire-exh16", "--seed", str(ctx.seed), "--shard", str(i), "--shards", str(NSH)] + extra, f"exh16-{i}.ndjson") for i in range(NSH)]
    return trace_stage(ctx, "exh16", cmds, "Trace_Wire")


def wire_vectors(ctx):
    """spec -> impl: every (shape, value) state of MC_Wire, with its re-padded encodings, executed on the real code"""
    cargo_build(ctx, "h_core")
    r = mc_wire(ctx, emit=True)
    d = os.path.join(WORK, "vec")
    os.makedirs(d, exist_ok=True)
    files = []
    lines = [core.unescape_tla(l[len('<<"VEC", "'):-3]) for l in r["lines"]]
    r["lines"] = []
    r["vectors"] = len(lines)
    per = (len(lines) + NSH - 1) // NSH
    cmds = []
    for i in range(NSH):
        chunk = lines[i * per:(i + 1) * per]
        if not chunk:
            continue
        p = os.path.join(d, f"wirevec-{ctx.tier}-{i}.json")
        open(p, "w").write("\n".join(chunk) + "\n")
        cmds.append(([hbin("h_core"), "wire-vec", "--in", p], f"wirevec-{i}.ndjson"))
    return trace_stage(ctx, "wire-vectors", cmds, "Trace_Wire")


def fix_trace(ctx):
    cargo_build(ctx, "h_core")
    extra = ["--fullbyte", "1", "--nstruct", "3000"] if ctx.tier == "thorough" else []
    cmds = [([hbin("h_core"), "fix", "--seed", str(ctx.seed), "--shard", str(i), "--shards", str(NSH)] + extra, f"fix-{i}.ndjson") for i in range(NSH)]
    return trace_stage(ctx, "fixint", cmds, "Trace_Wire")


def fix_io_trace(ctx):
    # the adapters through byte writers/readers that accept, deliver or refuse data piecewise (every fault offset, Ok(0) writers)
    cargo_build(ctx, "h_core")
    n = ctx.pick(64, 512)
    cmds = [([hbin("h_core"), "io", "--fix", "1", "--n", str(n), "--seed", str(ctx.seed * 1000 + 700 + i)], f"iofix-{i}.ndjson") for i in range(ctx.pick(4, NSH))]
    return trace_stage(ctx, "io-fix", cmds, "Trace_Io")


def run_c13(ctx):
    tlc_mc(ctx, "fixint", "MC_Fix", tmpl("MC_Fix"))
    fix_trace(ctx)
    fix_io_trace(ctx)


# --------------------------------------------------------------------------- accumulator (C08, C09)
def acc_mc(ctx, n, target, fit, emit=False, maxchunk=4, alpha="{0,1,2,3}", props="Progress", name=None):
    cfg = tmpl("MC_Acc", N=n, Alphabet=alpha, MaxChunk=maxchunk, Target=target, Fit="TRUE" if fit else "FALSE",
               Emit="TRUE" if emit else "FALSE", Props=props)
    return tlc_mc(ctx, name or f"acc-N{n}-{target}-{'fit' if fit else 'any'}{'-vec' if emit else ''}", "MC_Acc", cfg,
                  want_prefix='<<"VEC"' if emit else None, workers=8)


def acc_models(ctx):
    """state graphs of the accumulator model; the unrestricted ones are also the source of replay vectors"""
    lines = set()
    for n in ctx.pick([1, 2, 3, 4], [1, 2, 3, 4, 5, 6]):
        for target in (["pair", "bytes"] if n >= 3 else ["pair", "unit"] if n == 2 else ["pair"]):
            mc = 4 if n <= 4 else 3
            r = acc_mc(ctx, n, target, False, emit=True, maxchunk=mc)
            lines.update(r.pop("lines"))
            r["lines"] = []
            acc_mc(ctx, n, target, True, maxchunk=mc)      # environment of C08: no OverFull is ever reported
    if ctx.tier == "thorough":
        acc_mc(ctx, 7, "pair", False, maxchunk=3, alpha="{0,1,2,3,4}")
    # liveness of the documented loop on the smallest instance; N = 0 is documented not to make progress and is not claimed
    acc_mc(ctx, 2, "pair", False, maxchunk=3, props="Progress Drains", name="acc-N2-liveness")
    return sorted(lines)


def acc_edges(ctx):
    cargo_build(ctx, "h_core")
    lines = [core.unescape_tla(l[len('<<"VEC", "'):-3]) for l in acc_models(ctx)]
    d = os.path.join(WORK, "vec")
    os.makedirs(d, exist_ok=True)
    per = (len(lines) + NSH - 1) // NSH
    cmds = []
    for i in range(NSH):
        chunk = lines[i * per:(i + 1) * per]
        if not chunk:
            continue
        p = os.path.join(d, f"accedges-{ctx.tier}-{i}.json")
        open(p, "w").write("\n".join(chunk) + "\n")
        cmds.append(([hbin("h_core"), "acc-edges", "--in", p], f"accedges-{i}.ndjson"))
    r = trace_stage(ctx, "acc-edges", cmds, "Trace_Acc")
    r["distinct_edges"] = len(lines)
    return r


def acc_streams(ctx):
    cargo_build(ctx, "h_core")
    n, nexh, el = ctx.pick((60, 3, 9), (1500, 24, 12))
    cmds = [([hbin("h_core"), "acc-stream", "--n", str(n), "--nexh", str(nexh), "--exhlen", str(el), "--seed", str(ctx.seed * 100 + i)], f"accstream-{i}.ndjson")
            for i in range(NSH)]
    req = [f"feed:{m}:{k}" for m in ("feed", "feed_ref") for k in ("Consumed", "OverFull", "DeserError", "Success")]
    return trace_stage(ctx, "acc-streams", cmds, "Trace_Acc", nontrivial=lambda e: e.get("op") == "feed", require=req)


def link_mc(ctx, n, target, msgs, faults, emit, maxchunk=3, fbytes="{0,1,3}", props=""):
    cfg = tmpl("MC_Link", N=n, Target=target, Msgs=msgs, MaxChunk=maxchunk, MaxFaults=faults, FaultBytes=fbytes,
               Emit="TRUE" if emit else "FALSE", Props=props)
    if not props:
        cfg = "\n".join(l for l in cfg.splitlines() if not l.startswith("PROPERTIES")) + "\n"
    return tlc_mc(ctx, f"link-N{n}-{msgs}-f{faults}-c{maxchunk}{'-vec' if emit else ''}{'-live' if props else ''}", "MC_Link", cfg,
                  want_prefix='<<"LINK"' if emit else None, workers=8)


def acc_link(ctx):
    """the link as one system (spec/Link.tla): sender, damaging channel, documented receive loop. Exhaustive model checking of the
    end-to-end obligations, then every enumerated behaviour (chunks + untouched messages owed) replayed on the real accumulator."""
    cargo_build(ctx, "h_core")
    # exhaustive, no history: three frames / one fault, two frames / two faults (thorough), capacity exact and generous
    link_mc(ctx, 4, "pair", "PairMsgs", 1, False)
    link_mc(ctx, 4, "pair", "PairMsgs", 2, False)                              # three frames, two faults: 1.0e5 states
    link_mc(ctx, 5, "bytes", "BytesMsgs", 1, False)
    link_mc(ctx, 4, "pair", "PairMsgs2", 1, False, props="Delivers")          # liveness: everything sent is eventually through the loop
    if ctx.tier == "thorough":
        link_mc(ctx, 4, "pair", "PairMsgs2", 2, False, maxchunk=4)
        link_mc(ctx, 6, "pair", "PairMsgs", 1, False, maxchunk=5, fbytes="{0,1,2,3,255}")
        link_mc(ctx, 5, "bytes", "BytesMsgs", 2, False, maxchunk=4)
        link_mc(ctx, 4, "pair", "PairMsgs", 3, False)                          # three frames, three faults
        link_mc(ctx, 5, "pair", "PairMsgs", 2, False, maxchunk=4, fbytes="{0,1,2,3,255}")
    # behaviours as vectors (history of chunks carried in the state)
    lines = set()
    for (n, t, m, f, c) in ctx.pick([(4, "pair", "PairMsgs2", 1, 3), (5, "bytes", "BytesMsgs2", 1, 2)],
                                    [(4, "pair", "PairMsgs2", 1, 4), (5, "bytes", "BytesMsgs2", 1, 3), (4, "pair", "PairMsgs", 0, 3), (6, "pair", "PairMsgs2", 1, 3)]):
        r = link_mc(ctx, n, t, m, f, True, maxchunk=c)
        lines.update(r.pop("lines"))
        r["lines"] = []
    lines = sorted(core.unescape_tla(l[len('<<"LINK", "'):-3]) for l in lines)
    d = os.path.join(WORK, "vec")
    os.makedirs(d, exist_ok=True)
    per = (len(lines) + NSH - 1) // NSH
    cmds = []
    for i in range(NSH):
        chunk = lines[i * per:(i + 1) * per]
        if not chunk:
            continue
        p = os.path.join(d, f"acclink-{ctx.tier}-{i}.json")
        open(p, "w").write("\n".join(chunk) + "\n")
        cmds.append(([hbin("h_core"), "acc-link", "--in", p], f"acclink-{i}.ndjson"))
    r = trace_stage(ctx, "acc-link", cmds, "Trace_Acc", nontrivial=lambda e: e.get("op") in ("feed", "link_done"), require=["link_done"])
    r["distinct_behaviours"] = len(lines)
    return r


def run_acc(ctx):
    # unbounded capacity / chunk length: index bound, slice indices in range and loop progress as an inductive invariant (Apalache)
    core.apalache_inductive(ctx, "acc-abs", os.path.join(SPEC, "apalache", "AccAbs.tla"))
    acc_edges(ctx)
    acc_streams(ctx)
    acc_link(ctx)


def _env(mm):
    w = mm["expected"].get("want") if isinstance(mm["expected"], dict) else None
    return w.get("env") if isinstance(w, dict) else None


def sel_c08(mm):
    # C08 quantifies over streams whose segments fit the capacity
    t = set(mm.get("tags", []))
    return _env(mm) == "fit" and bool(t & {"feed", "edge", "conserve", "leaves", "idx", "panic", "link"})


def sel_c09(mm):
    t = set(mm.get("tags", []))
    return bool(t & {"panic", "progress", "crash"}) or _env(mm) == "nofit" or (_env(mm) is None)


ACC_ASSUME = [
    "TLC, CommunityModules, the Python driver and the harness's Shape/Val bridge are trusted",
    "the accumulator has no state besides (buf, idx), both read through the cfg-guarded hook; edge coverage of the model graph "
    "is therefore path coverage (DESIGN.md 5.C08); stale buffer contents are covered by two regimes",
    "MAXRUN = 254 (the cobs crate's constant) in the frame decoder used by the model",
]

# --------------------------------------------------------------------------- framing: SerPipe / COBS / CRC (C05, C06, C07, C10, C20)
def mc_serpipe(ctx):
    for mr in ctx.pick([3], [2, 3, 4]):
        tlc_mc(ctx, f"serpipe-MR{mr}", "MC_SerPipe",
               tmpl("MC_SerPipe", MR=mr, Alphabet="{0,1,2}", MaxLen=ctx.pick(5, 7), MaxCap=ctx.pick(10, 13), Stacks='{"plain","cobs","crc","crc+cobs"}'),
               workers=12, timeout=ctx.pick(600, 7200))


def mc_cobsdec(ctx):
    for mr in ctx.pick([3], [2, 3, 4]):
        # the input set [1..MaxLen -> 0..MR+1] must stay below TLC's 10^6 set-size limit
        tlc_mc(ctx, f"cobsdec-MR{mr}", "MC_CobsDec", tmpl("MC_CobsDec", MR=mr, MaxLen=ctx.pick(7, 8 if mr <= 3 else 7)), workers=12)


def mc_crc(ctx):
    for alg, ml, mb, stride in ctx.pick([("smbus", 2, 8, 997), ("maxim", 2, 8, 997), ("xmodem", 2, 9, 1499)],
                                        [("smbus", 2, 8, 61), ("maxim", 2, 8, 61), ("smbus", 3, 8, 99991), ("xmodem", 2, 10, 997), ("sdlc", 2, 10, 997)]):
        tlc_mc(ctx, f"crc-{alg}-{ml}", "MC_Crc", tmpl("MC_Crc", Alg=alg, MsgLen=ml, MaxBurst=mb, Stride=stride), workers=12, timeout=ctx.pick(600, 7200))


def ser_trace(ctx):
    cargo_build(ctx, "h_core")
    n = ctx.pick(150, 2500)
    cmds = [([hbin("h_core"), "ser", "--n", str(n), "--seed", str(ctx.seed * 1000 + i)], f"ser-{i}.ndjson") for i in range(NSH)]
    req = [f"serb:{sig}:{st}:{r}" for sig in ("plain", "cobs", "crc", "crc+cobs") for st, r in (("slice", "ok"), ("slice", "BufferFull"), ("hvec", "ok"), ("hvec", "BufferFull"), ("allocvec", "ok"))]
    req += ["serb:plain:size:ok", "serb:crc:size:ok", "serb:plain:extend:ok", "userflavor", "cobs_ops:ok", "cobs_ops:BufferFull"]
    return trace_stage(ctx, "ser", cmds, "Trace_Ser", require=req)


def cobsde_trace(ctx):
    cargo_build(ctx, "h_core")
    n, exh = ctx.pick((40, 6), (600, 8))
    cmds = [([hbin("h_core"), "cobs-de", "--n", str(n), "--exh", str(exh), "--seed", str(ctx.seed), "--shard", str(i), "--shards", str(NSH)], f"cobsde-{i}.ndjson")
            for i in range(NSH)]
    req = ["cobs_take:ok", "cobs_take:BadEncoding", "cobs_take:End", "cobs_from:ok", "cobs_from:BadEncoding"]
    return trace_stage(ctx, "cobs-de", cmds, "Trace_Frame", require=req)


def crcde_trace(ctx):
    cargo_build(ctx, "h_core")
    # the bit-serial CRC model costs a few ms per corrupted case: thorough = 4x the frames, plus six shards with the
    # exhaustive enumeration of every burst pattern up to 10 bits at every offset of four short frames each (checksums up to 32 bits, frames up to 10 bytes)
    n = ctx.pick(7, 28)
    ndeep = 6 if ctx.tier == "thorough" else 0
    cmds = [([hbin("h_core"), "crc-de", "--n", str(n if i >= ndeep else 4), "--seed", str(ctx.seed * 100 + i)]
             + (["--deep", "1"] if i < ndeep else []), f"crcde-{i}.ndjson")
            for i in range(NSH)]
    req = [f"crc{w}:{k}" for w in (1, 2, 4, 8, 16) for k in ("intact:ok", "bit:BadCrc", "trunc:End", "burst:", "cksum:BadCrc")]
    return trace_stage(ctx, "crc-de", cmds, "Trace_Frame", require=req)


def _want(mm):
    w = mm["expected"].get("want") if isinstance(mm["expected"], dict) else None
    return w if isinstance(w, dict) else {}


def _tool_if_crcmodel(mm):
    if "crcmodel" in mm.get("tags", []):
        raise core.ToolError("the specification's model of a logged CRC algorithm does not reproduce its catalogue check value")


def sel_c05(mm):
    _tool_if_crcmodel(mm)
    t = set(mm.get("tags", []))
    return mm["stage"] == "ser" and bool(t & {"thr", "canary", "size", "panic", "crash", "cobs_ops"} or ("bytes" in t and _want(mm).get("sig") == "plain"))


def sel_c06(mm):
    t = set(mm.get("tags", []))
    if mm["stage"] == "ser":
        return _want(mm).get("sig") == "cobs" and bool(t & {"bytes", "thr", "panic", "cobs_ops"})
    return mm["stage"] == "cobs-de" and _want(mm).get("fam") == "seq"


def sel_c07(mm):
    return mm["stage"] == "cobs-de" and _want(mm).get("fam") in ("exh", "mut", None)


def sel_c10(mm):
    _tool_if_crcmodel(mm)
    t = set(mm.get("tags", []))
    if mm["stage"] == "ser":
        return _want(mm).get("sig") == "crc" and bool(t & {"bytes", "panic"})
    return mm["stage"] == "crc-de"


def sel_c20(mm):
    _tool_if_crcmodel(mm)
    t = set(mm.get("tags", []))
    return mm["stage"] == "ser" and (bool(t & {"user", "undo", "iothr", "iobytes"}) or (_want(mm).get("sig") in ("crc+cobs", "cobs", "crc") and bool(t & {"bytes", "thr", "panic", "cobs_ops"})))


def run_c05(ctx):
    mc_serpipe(ctx)
    ser_trace(ctx)


def run_c06(ctx):
    mc_serpipe(ctx)
    mc_cobsdec(ctx)
    ser_trace(ctx)
    cobsde_trace(ctx)


def run_c07(ctx):
    mc_cobsdec(ctx)
    cobsde_trace(ctx)


def run_c10(ctx):
    mc_crc(ctx)
    ser_trace(ctx)
    crcde_trace(ctx)


def run_c20(ctx):
    mc_serpipe(ctx)
    ser_trace(ctx)


FRAME_ASSUME = WIRE_ASSUME + [
    "MAXRUN = 254 in the functional COBS definition; the machine/function equivalence is model-checked on scaled MAXRUN (2..4)",
    "CRC algorithm parameters are read from the crc crate's Algorithm structs and logged; the specification first re-derives each catalogue check value (a wrong CRC model is a tool error, not a violation)",
    "out-of-bounds writes are observed by guard pages at the buffer edges and a 0xA5 canary inside the buffer",
]

# --------------------------------------------------------------------------- C04
def depipe_trace(ctx):
    cargo_build(ctx, "h_core")
    n = ctx.pick(150, 3000)
    cmds = [([hbin("h_core"), "depipe", "--n", str(n), "--seed", str(ctx.seed * 1000 + i)], f"depipe-{i}.ndjson") for i in range(NSH)]
    return trace_stage(ctx, "depipe", cmds, "Trace_De")


def run_c04(ctx):
    tlc_mc(ctx, "depipe", "MC_DePipe", tmpl("MC_DePipe", MaxIn=ctx.pick(4, 5), MaxScratch=ctx.pick(4, 5), Depth=ctx.pick(6, 7)))
    wire_vectors(ctx)
    wire_trace(ctx)
    depipe_trace(ctx)


def sel_c04(mm):
    t = set(mm.get("tags", []))
    if mm["stage"] == "depipe":
        return True
    return bool(t & {"panic", "leaves", "refused", "crash", "hint"})


# --------------------------------------------------------------------------- C11
def io_trace(ctx):
    cargo_build(ctx, "h_core")
    n = ctx.pick(60, 1200)
    cmds = [([hbin("h_core"), "io", "--n", str(n), "--seed", str(ctx.seed * 1000 + i)], f"io-{i}.ndjson") for i in range(NSH)]
    req = ["io_ser:ok", "io_ser:BufferFull", "io_de:io:ok", "io_de:io:End", "io_de:eio:ok", "io_de:eio:End"]
    return trace_stage(ctx, "io", cmds, "Trace_Io", require=req)


def io_trace_eio04(ctx):
    """the embedded-io 0.4 adapter (mutually exclusive with 0.6): a second build of h_core in its own target directory"""
    cargo_build(ctx, "h_core", features="eio04", no_default=True, target_dir="target-eio04")
    b = os.path.join(core.HARNESS, "target-eio04", "debug", "h_core")
    n = ctx.pick(30, 400)
    cmds = [([b, "io", "--n", str(n), "--seed", str(ctx.seed * 1000 + 500 + i)], f"io04-{i}.ndjson") for i in range(NSH)]
    return trace_stage(ctx, "io-eio04", cmds, "Trace_Io")


def run_c11(ctx):
    for reqs, sl in ctx.pick([("ReqA", 8), ("ReqB", 6)], [("ReqA", 9), ("ReqB", 8), ("ReqC", 11)]):
        tlc_mc(ctx, f"transport-{reqs}", "MC_Transport", tmpl("MC_Transport", StreamLen=sl, MaxPiece=3, Requests=reqs))
    tlc_mc(ctx, "depipe", "MC_DePipe", tmpl("MC_DePipe", MaxIn=ctx.pick(4, 5), MaxScratch=ctx.pick(4, 5), Depth=ctx.pick(6, 7)))
    io_trace(ctx)
    if ctx.tier == "thorough":
        io_trace_eio04(ctx)
    wire_trace(ctx)      # the to_io/to_eio/from_io/from_eio pairings of the round-trip trace run over short-piece transports too


def sel_c11(mm):
    if mm["stage"] in ("io", "io-eio04"):
        return True
    ev = mm["event"]
    return mm["stage"] == "wire" and (ev.get("enc") in ("to_io", "to_eio") or ev.get("dec") in ("from_io", "from_eio")) and "rt" in mm.get("tags", [])


# --------------------------------------------------------------------------- schema (C14, C15, C16, C19)
def mc_schema(ctx, emit=False):
    return tlc_mc(ctx, "schema-trees" + ("-vec" if emit else ""), "MC_Schema", tmpl("MC_Schema", Depth=ctx.pick(1, 2), Emit="TRUE" if emit else "FALSE"),
                  want_prefix='<<"VEC"' if emit else None, workers=8)


def schema_vectors(ctx):
    cargo_build(ctx, "h_schema")
    r = mc_schema(ctx, emit=True)
    lines = [core.unescape_tla(l[len('<<"VEC", "'):-3]) for l in r.pop("lines")]
    r["lines"] = []
    r["vectors"] = len(lines)
    d = os.path.join(WORK, "vec")
    os.makedirs(d, exist_ok=True)
    per = (len(lines) + NSH - 1) // NSH
    cmds = []
    for i in range(NSH):
        chunk = lines[i * per:(i + 1) * per]
        if not chunk:
            continue
        p = os.path.join(d, f"schemavec-{ctx.tier}-{i}.json")
        open(p, "w").write("\n".join(chunk) + "\n")
        cmds.append(([hbin("h_schema"), "trees-vec", "--in", p], f"schemavec-{i}.ndjson"))
    return trace_stage(ctx, "schema-vectors", cmds, "Trace_Schema")


def schema_trees(ctx):
    cargo_build(ctx, "h_schema")
    n = ctx.pick(80, 1500)
    cmds = [([hbin("h_schema"), "trees", "--n", str(n), "--seed", str(ctx.seed * 1000 + i), "--depth", str(3 + i % 3)], f"trees-{i}.ndjson") for i in range(NSH)]
    return trace_stage(ctx, "schema-trees", cmds, "Trace_Schema", require=["schema_big", "schema_tree:deep"])


def schema_conform(ctx):
    cargo_build(ctx, "h_schema")
    reps = ctx.pick(2, 40)
    cmds = [([hbin("h_schema"), "conform", "--reps", str(reps), "--seed", str(ctx.seed * 1000 + i)], f"conform-{i}.ndjson") for i in range(ctx.pick(4, NSH))]
    return trace_stage(ctx, "schema-conform", cmds, "Trace_Schema")


def schema_conform_alloc(ctx):
    # postcard-schema built with `alloc` but without `use-std`: Vec/String/BTreeMap/BTreeSet come from impls/builtins_alloc.rs
    cargo_build(ctx, "h_schema_alloc")
    reps = ctx.pick(2, 20)
    cmds = [([hbin("h_schema_alloc"), "conform", "--reps", str(reps), "--seed", str(ctx.seed * 1000 + i)], f"conform-alloc-{i}.ndjson") for i in range(ctx.pick(2, 4))]
    return trace_stage(ctx, "schema-conform-alloc", cmds, "Trace_Schema")


def _tags(mm):
    return set(mm.get("tags", []))


def _schema_tool(mm):
    if _tags(mm) & {"harness", "specmodel"}:
        raise core.ToolError(f"harness/spec self-check failed in the schema trace: {mm.get('tags')}")


def sel_c14(mm):
    _schema_tool(mm)
    return bool(_tags(mm) & {"conform", "consume", "panic14", "crash"})


def sel_c15(mm):
    _schema_tool(mm)
    return bool(_tags(mm) & {"enc_borrowed", "enc_owned", "conv", "dec", "panic15", "crash"})


def sel_c16(mm):
    _schema_tool(mm)
    return bool(_tags(mm) & {"key_owned", "key_const", "key_type", "crash"})


def sel_c19(mm):
    _schema_tool(mm)
    return bool(_tags(mm) & {"used", "render", "crash"})


def run_schema_trees(ctx):
    schema_vectors(ctx)
    schema_trees(ctx)


def run_c14(ctx):
    mc_schema(ctx)
    schema_conform(ctx)
    schema_conform_alloc(ctx)


def run_c16(ctx):
    schema_vectors(ctx)
    schema_trees(ctx)
    schema_conform(ctx)
    schema_conform_alloc(ctx)


SCHEMA_ASSUME = [
    "TLC, CommunityModules, the Python driver are trusted; the harness walks the borrowed and the owned schema with its own code (cross-checked: borrowed walk = the tree it built)",
    "the specification's schema encoder and parser are checked to be mutually inverse on every event (tag specmodel => tool error)",
    "struct/enum type names are not part of conformance (the statement lists kinds, field/variant names, order, arity, element types)",
    "serde-derive and the third-party Serialize impls (uuid, chrono, heapless, nalgebra) are taken as they are: they are the 'what Serialize writes' side",
]

# --------------------------------------------------------------------------- C12
def run_c12(ctx):
    tlc_mc(ctx, "maxsize-sup", "MC_MaxSize", tmpl("MC_MaxSize", Depth=ctx.pick(1, 2)))
    cargo_build(ctx, "h_maxsize")
    trace_stage(ctx, "maxsize", [([hbin("h_maxsize")], "maxsize.ndjson")], "Trace_MaxSize")


def sel_c12(mm):
    if "specmodel" in _tags(mm):
        raise core.ToolError("a sampled value is longer than the specification's supremum for the shape the harness declared: harness shape is wrong")
    return True


# --------------------------------------------------------------------------- postcard-dyn (C17, C18)
def dyn_agree(ctx):
    cargo_build(ctx, "h_dyn")
    n = ctx.pick(600, 12000)
    cmds = [([hbin("h_dyn"), "agree", "--n", str(n), "--seed", str(ctx.seed * 1000 + i)], f"dyn-{i}.ndjson") for i in range(NSH)]
    return trace_stage(ctx, "dyn-agree", cmds, "Trace_Dyn")


def dyn_total(ctx):
    cargo_build(ctx, "h_dyn")
    n = ctx.pick(250, 5000)
    cmds = [([hbin("h_dyn"), "total", "--n", str(n), "--seed", str(ctx.seed * 1000 + i)], f"dyntotal-{i}.ndjson") for i in range(NSH)]
    return trace_stage(ctx, "dyn-total", cmds, "Trace_Dyn")


def _dyn_tool(mm):
    if _tags(mm) & {"harness", "static", "jsonmodel"}:
        raise core.ToolError(f"dyn trace self-check failed (harness schema/shape mapping, static encoding or the serde_json model): {mm.get('tags')} {str(mm['event'])[:300]}")


def sel_c17(mm):
    _dyn_tool(mm)
    return mm["stage"] == "dyn-agree" and bool(_tags(mm) & {"dyn_enc", "dyn_dec", "crash"})


def sel_c18(mm):
    _dyn_tool(mm)
    return bool(_tags(mm) & {"panic", "alloc", "idem", "wire", "crash"})


def mc_dyn(ctx):
    # the scope predicate is well-chosen: JsonOf is injective on in-scope values of every model shape (plus shapes
    # around null-in-Option, arities 0/1 and unit payloads), and the statement's own examples fall on the right side
    insts = [(1, 2)] + ([(2, 1)] if ctx.tier == "thorough" else [])
    for depth, maxseq in insts:
        tlc_mc(ctx, f"dyn-scope-d{depth}s{maxseq}", "MC_Dyn", tmpl("MC_Dyn", Depth=depth, MaxSeq=maxseq), workers=8, timeout=ctx.pick(600, 1800))


def run_c17(ctx):
    mc_wire(ctx)          # Enc/Dec, on which the relation rests
    mc_dyn(ctx)
    dyn_agree(ctx)


def run_c18(ctx):
    mc_wire(ctx)
    dyn_agree(ctx)        # panics anywhere count
    dyn_total(ctx)


DYN_ASSUME = WIRE_ASSUME + [
    "serde_json::to_value is the environment: the specification carries its own model of it (JsonOf) and a disagreement with the real to_value on an in-scope value is a tool error",
    "f32 <-> f64 conversions used for logging are std's; the scope predicate Unambiguous is computed by the specification, not by the harness",
    "allocation bound of dynamic decoding: 256 * (input length + schema size + 16) bytes; a memory safety net (RLIMIT_AS) keeps runaway allocations from exhausting the sandbox",
]

# --------------------------------------------------------------------------- properties


def corpus_trace(ctx):
    """concrete Rust types (derived structs/enums of every form, serde's std impls) through all entry pairings"""
    cargo_build(ctx, "h_core")
    cmds = [([hbin("h_core"), "corpus", "--reps", str(ctx.pick(1, 6)), "--seed", str(ctx.seed * 100 + i)], f"corpus-{i}.ndjson") for i in range(NSH)]
    return trace_stage(ctx, "corpus", cmds, "Trace_Wire")


def run_c01(ctx):
    mc_varint(ctx)
    wire_vectors(ctx)
    wire_trace(ctx)
    corpus_trace(ctx)
    exh16_trace(ctx)     # entire 16-bit integer domain and (sampled / all) char blocks as intb / charb batches


def run_c02(ctx):
    mc_varint(ctx)
    wire_vectors(ctx)
    wire_trace(ctx)
    corpus_trace(ctx)
    exh16_trace(ctx)


def run_c03(ctx):
    mc_varint(ctx)
    wire_vectors(ctx)
    wire_trace(ctx)
    exh16_trace(ctx)


REGISTRY = {
    "C17": dict(run=run_c17, select=sel_c17, assumptions=DYN_ASSUME, replay_pkg="h_dyn",
                rule="dyn events: random shapes (depth<=3, all kinds expressible in a schema) and values; the harness derives the schema serde conventions give, "
                     "logs static bytes, the structural serde_json value, the dynamic encoding of that value and the dynamic decoding of the static bytes; "
                     "the specification decides scope (Unambiguous) and requires both to agree with Enc / JsonOf"),
    "C18": dict(run=run_c18, select=sel_c18, assumptions=DYN_ASSUME, replay_pkg="h_dyn",
                rule="dyn_ser events: random schema trees over every node kind x type-correct, near-miss and unrelated JSON; accepted encodings must decode and re-encode "
                     "identically and be accepted exactly by Wire!Dec for the schema; dyn_de events: valid, mutated, truncated, length-attacked and random bytes with "
                     "allocation measured; panics anywhere (also in the C17 trace)"),
    "C12": dict(run=run_c12, select=sel_c12, replay_pkg="h_maxsize", assumptions=WIRE_ASSUME + [
                    "the shape (with capacities) of each implementing type is declared next to it in the harness; a sample longer than SupLen(shape) is treated as a harness error",
                    "the derive under test is the repository's postcard-derive (path dependency), used directly as postcard_derive::MaxSize",
                    "tightness is required exactly for the kinds the statement lists (integers, floats, bool, char, arrays, tuples, options, fixed-capacity strings/vectors); larger safe bounds elsewhere are not alarms"],
                rule="one maxsize event per implementing type (82 types: every built-in impl incl. NonZero*, ranges, smart pointers, heapless containers at capacities "
                     "0,1,127,128,16383,16384; derived structs of all forms, generics, enums with 1,2,3,127,128,129 variants) with maximising values for every field/variant; "
                     "declared >= SupLen(shape), every sample fits, declared = SupLen = attained for tight kinds"),
    "C14": dict(run=run_c14, select=sel_c14, assumptions=SCHEMA_ASSUME, replay_pkg="h_schema",
                rule="conform events: ~110 (type, value) pairs per repetition: every built-in Schema implementor (ints, NonZero*, floats, char, str/String/PathBuf, unit, "
                     "tuples 1-6, arrays, slices/Vec/sets, maps, Option, Result, references, ranges, heapless 0.7/0.8, uuid, chrono, nalgebra, Key, the schema types) and "
                     "derived structs/enums of every form with every variant; schema walked from the borrowed SCHEMA; call tree from a recording serde Serializer"),
    "C15": dict(run=run_schema_trees, select=sel_c15, assumptions=SCHEMA_ASSUME, replay_pkg="h_schema",
                rule="schema_tree events: every tree of MC_Schema (all kinds as root and child, depth<=1..2) as a vector, plus random trees (depth 3-6, fan-out<=5, "
                     "names empty/ASCII/multi-byte) and their single-node mutants; distinct event content"),
    "C16": dict(run=run_c16, select=sel_c16, assumptions=SCHEMA_ASSUME, replay_pkg="h_schema",
                rule="schema_tree events as C15 with both hashers (const via the cfg-guarded hook, owned) on every tree, every (bounded) single-node mutant and a path "
                     "mutant, each judged against the spec key of that very tree; conform events add Key::for_path::<T> for the type corpus"),
    "C19": dict(run=run_schema_trees, select=sel_c19, assumptions=SCHEMA_ASSUME, replay_pkg="h_schema",
                rule="schema_tree events as C15: all_used_types as a set against Subtrees(tree), to_pseudocode/Display for termination, equality, and presence of the "
                     "top-level name and direct field/variant names"),
    "C11": dict(run=run_c11, select=sel_c11, assumptions=WIRE_ASSUME + [
                    "a reader that reports an error at offset f is equivalent to a stream that ends at f (both become DeserializeUnexpectedEnd); model-checked in MC_Transport",
                    "ErrorKind::Interrupted retries are std's read_exact contract and are not injected",
                    "embedded-io 0.6 in the quick tier; the 0.4 adapter shares the same flavour code through the eio module alias"],
                rule="io_ser events: every fault offset 0..len (short outputs) x piece schedules x std::io/embedded-io, incl. writers reporting full as Ok(0); "
                     "io_de events: 1..3 messages on one stream x scratch sizes 0..need+1 x a fault at every byte offset x piece schedules, damaged streams; "
                     "each event carries the per-message results, reader positions, scratch remainders and borrowed offsets"),
    "C04": dict(run=run_c04, select=sel_c04, assumptions=WIRE_ASSUME + [
                    "out-of-bounds reads are observed by guard pages flush against either end of the input (page-crossing accesses only)",
                    "allocation is measured by a counting global allocator around the postcard call only (the scripted transport does not allocate while measured); "
                    "bound = 8 * element size * (input + scratch bytes + 16) + 256; maps are measured but not asserted (outside the claim)"],
                rule="df_* events: every pop/try_take_n/size_hint/finalize the real Deserializer issues on a recording slice flavour for valid, truncated, "
                     "length-attacked, damaged and random inputs, plus direct call sequences with counts up to usize::MAX, validated step by step against the "
                     "cursor machine; alloc events: 12 concrete std target types x claimed lengths (powers of two up to 2^63, usize::MAX, remaining+-1) x "
                     "slice/std::io/embedded-io entry; dec/rt events of the wire trace for panics, borrowed-leaf offsets and refused requests"),
    "C05": dict(run=run_c05, select=sel_c05, assumptions=FRAME_ASSUME,
                rule="serb events: one per (value, stack) with the outcome for every storage (slice flush against a guard page, heapless, "
                     "growable, Extend, size counter) at every capacity 0..len+2 (short outputs) or around the boundaries (long outputs)"),
    "C06": dict(run=run_c06, select=sel_c06, assumptions=FRAME_ASSUME,
                rule="serb events with the COBS stack incl. values whose plain encodings have runs of 252..256, 506..510, 761..763 non-zero bytes; "
                     "cobs_take events consuming sequences of 1..6 frames frame by frame, last sentinel present or not"),
    "C07": dict(run=run_c07, select=sel_c07, assumptions=FRAME_ASSUME,
                rule="cobs_take/cobs_from events: every byte string up to 6 (quick) / 8 (thorough) over {00,01,02,03,FF} x 7 target types; valid frames "
                     "with 5 corruption classes at every position, every truncation, random bytes; buffers flush against guard pages"),
    "C10": dict(run=run_c10, select=sel_c10, assumptions=FRAME_ASSUME,
                rule="serb events with CRC stacks (13 catalogue algorithms, 5 storage widths); crc_deb batch events: per sampled frame the intact "
                     "frame, every truncation, every single-bit flip, bursts (all patterns up to 8 bits, sampled to the width), checksum-only and random damage"),
    "C20": dict(run=run_c20, select=sel_c20, assumptions=FRAME_ASSUME,
                rule="serb events for stacks plain/COBS/CRC/CRC-inside-COBS over slice/heapless/growable storages; userflavor events: a recording user "
                     "flavour with and without a block-write override, bare and under a CRC modifier"),
    "C08": dict(run=run_acc, select=sel_c08, assumptions=ACC_ASSUME,
                rule="edges: every (buffered bytes, chunk) transition of MC_Acc's graphs (N<=4..6, alphabet {0,1,2,3}, chunks<=4) replayed on "
                     "the real CobsAccumulator<N> under 2 stale-content regimes x feed/feed_ref; streams: random streams of valid/corrupt/empty/"
                     "garbage/over-long pieces under random chunkings and every chunking of short streams, through the documented loop; "
                     "non-trivial = feed events (loop bookkeeping events excluded)"),
    "C09": dict(run=run_acc, select=sel_c09, assumptions=ACC_ASSUME,
                rule="as C08, judged on the steps outside the fit environment (over-long segments, garbage), plus panics, loop progress "
                     "(iterations <= 2*len+2) and the index bound everywhere"),
    "C13": dict(run=run_c13, tags=None, assumptions=WIRE_ASSUME,
                rule="fixb events: the entire 16-bit domain (256 batch events x 256 values) for u16/i16 x le/be; rt events for the 8 integer "
                     "types x 2 orders on every single-byte-nonzero pattern, extremes, all-distinct-bytes and random values, bare and embedded "
                     "between ordinary fields, through all entry pairings, plus all truncations; a derived struct with #[serde(with)] on 16 fields; "
                     "values are built arithmetically from limbs"),
    "C01": dict(run=run_c01, tags={"rt", "crash"}, assumptions=WIRE_ASSUME,
                rule="events: one per (shape, value, encode entry, decode entry, tail) round trip, random shape trees over all kinds "
                     "(depth<=4) with boundary-structured values, cycling the 7x5 entry pairings, plus every MC_Wire state as a vector; "
                     "distinct = distinct event content; non-trivial = every rt event (all carry a value)"),
    "C02": dict(run=run_c02, tags={"enc", "seqhdr", "sequnk", "cstr", "crash"}, assumptions=WIRE_ASSUME,
                rule="rt events compared byte-for-byte with Wire!Enc; declared-length events for every power of two +-1 up to usize::MAX; "
                     "unknown-length and collect_str events; distinct event content"),
    "C03": dict(run=run_c03, tags={"dec", "decb", "crash"}, assumptions=WIRE_ASSUME,
                rule="dec events: every strict prefix, byte substitutions, bit flips, re-paddings, adversarial length prefixes, random bytes, "
                     "structured varint probes for every width; decb events: 256 outcomes per prefix for the 16-bit decoders "
                     "(all 1- and 2-byte strings, sampled or all 3-byte strings, sampled 4-byte strings); non-trivial = input not empty"),
}
