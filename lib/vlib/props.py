"""Property registry: which model-checking instances and which recorded-trace validations decide each property."""
import os
from . import core
from .core import tlc_mc, trace_stage, cargo_build, hbin, SPEC, WORK

NSH = 16  # shards


def tmpl(name, **kw):
    return open(os.path.join(SPEC, "mc", name + ".cfg.tmpl")).read() % kw


# --------------------------------------------------------------------------- model-checking stages
ALPHA12 = "{0,1,2,3,4,127,128,129,131,132,254,255}"


def mc_varint(ctx):
    """writer/reader loop machines vs functional definitions: W=16 exhaustive; scaled widths; 32/64/128 structured"""
    tlc_mc(ctx, "varint-w16-full", "MC_Varint", tmpl("MC_Varint", W=16, Full="TRUE", RAlpha=ALPHA12, RMaxLen=4))
    for w in ctx.pick([9, 13], [8, 9, 10, 11, 12, 13, 15]):  # not 14: max_of_last_byte is meaningless when 7 divides W (never the case for real widths)
        tlc_mc(ctx, f"varint-w{w}-full", "MC_Varint", tmpl("MC_Varint", W=w, Full="TRUE", RAlpha=ALPHA12, RMaxLen=(w + 6) // 7 + 1))
    for w in (32, 64, 128):
        tlc_mc(ctx, f"varint-w{w}-structured", "MC_Varint",
               tmpl("MC_Varint", W=w, Full="FALSE", RAlpha="{0,1,2,3,4,7,8,15,16,31,32,63,64,127,128,255}", RMaxLen=0))


def mc_wire(ctx, emit=False):
    cfg = tmpl("MC_Wire", Depth=ctx.pick(1, 2), MaxSeq=ctx.pick(2, 3), Emit="TRUE" if emit else "FALSE")
    return tlc_mc(ctx, "wire-shapes" + ("-vec" if emit else ""), "MC_Wire", cfg, workers=12, want_prefix='<<"VEC"' if emit else None,
                  timeout=ctx.pick(900, 7200))


# --------------------------------------------------------------------------- trace stages
def wire_trace(ctx):
    cargo_build(ctx, "h_core")
    n = ctx.pick(300, 4000)
    cmds = [([hbin("h_core"), "wire", "--n", str(n), "--seed", str(ctx.seed * 1000 + i), "--depth", str(3 if i % 4 else 4)], f"wire-{i}.ndjson") for i in range(NSH)]
    return trace_stage(ctx, "wire", cmds, "Trace_Wire", nontrivial=lambda e: not (e.get("op") == "dec" and e.get("input") == []))


def exh16_trace(ctx):
    cargo_build(ctx, "h_core")
    extra = ["--full3", "1"] if ctx.tier == "thorough" else ["--n3", "1024", "--n4", "256"]
    cmds = [([hbin("h_core"), "wire-exh16", "--seed", str(ctx.seed), "--shard", str(i), "--shards", str(NSH)] + extra, f"exh16-{i}.ndjson") for i in range(NSH)]
    return trace_stage(ctx, "exh16", cmds, "Trace_Wire")


def wire_vectors(ctx):
    """spec -> impl: every (shape, value) state of MC_Wire, with its re-padded encodings, executed on the real code"""
    cargo_build(ctx, "h_core")
    r = mc_wire(ctx, emit=True)
    d = os.path.join(WORK, "vec")
    os.makedirs(d, exist_ok=True)
    files = []
    lines = [core.unescape_tla(l[len('<<"VEC", "'):-3]) for l in r["lines"]]
    r["lines"] = []
    r["vectors"] = len(lines)
    per = (len(lines) + NSH - 1) // NSH
    cmds = []
    for i in range(NSH):
        chunk = lines[i * per:(i + 1) * per]
        if not chunk:
            continue
        p = os.path.join(d, f"wirevec-{ctx.tier}-{i}.json")
        open(p, "w").write("\n".join(chunk) + "\n")
        cmds.append(([hbin("h_core"), "wire-vec", "--in", p], f"wirevec-{i}.ndjson"))
    return trace_stage(ctx, "wire-vectors", cmds, "Trace_Wire")


def fix_trace(ctx):
    cargo_build(ctx, "h_core")
    extra = ["--fullbyte", "1", "--nstruct", "3000"] if ctx.tier == "thorough" else []
    cmds = [([hbin("h_core"), "fix", "--seed", str(ctx.seed), "--shard", str(i), "--shards", str(NSH)] + extra, f"fix-{i}.ndjson") for i in range(NSH)]
    return trace_stage(ctx, "fixint", cmds, "Trace_Wire")


def run_c13(ctx):
    tlc_mc(ctx, "fixint", "MC_Fix", tmpl("MC_Fix"))
    fix_trace(ctx)


# --------------------------------------------------------------------------- accumulator (C08, C09)
def acc_mc(ctx, n, target, fit, emit=False, maxchunk=4, alpha="{0,1,2,3}", props="Progress", name=None):
    cfg = tmpl("MC_Acc", N=n, Alphabet=alpha, MaxChunk=maxchunk, Target=target, Fit="TRUE" if fit else "FALSE",
               Emit="TRUE" if emit else "FALSE", Props=props)
    return tlc_mc(ctx, name or f"acc-N{n}-{target}-{'fit' if fit else 'any'}{'-vec' if emit else ''}", "MC_Acc", cfg,
                  want_prefix='<<"VEC"' if emit else None, workers=8)


def acc_models(ctx):
    """state graphs of the accumulator model; the unrestricted ones are also the source of replay vectors"""
    lines = set()
    for n in ctx.pick([1, 2, 3, 4], [1, 2, 3, 4, 5, 6]):
        for target in (["pair", "bytes"] if n >= 3 else ["pair"]):
            mc = 4 if n <= 4 else 3
            r = acc_mc(ctx, n, target, False, emit=True, maxchunk=mc)
            lines.update(r.pop("lines"))
            r["lines"] = []
            acc_mc(ctx, n, target, True, maxchunk=mc)      # environment of C08: no OverFull is ever reported
    if ctx.tier == "thorough":
        acc_mc(ctx, 7, "pair", False, maxchunk=3, alpha="{0,1,2,3,4}")
    # liveness of the documented loop on the smallest instance; N = 0 is documented not to make progress and is not claimed
    acc_mc(ctx, 2, "pair", False, maxchunk=3, props="Progress Drains", name="acc-N2-liveness")
    return sorted(lines)


def acc_edges(ctx):
    cargo_build(ctx, "h_core")
    lines = [core.unescape_tla(l[len('<<"VEC", "'):-3]) for l in acc_models(ctx)]
    d = os.path.join(WORK, "vec")
    os.makedirs(d, exist_ok=True)
    per = (len(lines) + NSH - 1) // NSH
    cmds = []
    for i in range(NSH):
        chunk = lines[i * per:(i + 1) * per]
        if not chunk:
            continue
        p = os.path.join(d, f"accedges-{ctx.tier}-{i}.json")
        open(p, "w").write("\n".join(chunk) + "\n")
        cmds.append(([hbin("h_core"), "acc-edges", "--in", p], f"accedges-{i}.ndjson"))
    r = trace_stage(ctx, "acc-edges", cmds, "Trace_Acc")
    r["distinct_edges"] = len(lines)
    return r


def acc_streams(ctx):
    cargo_build(ctx, "h_core")
    n, nexh, el = ctx.pick((60, 3, 9), (1500, 24, 12))
    cmds = [([hbin("h_core"), "acc-stream", "--n", str(n), "--nexh", str(nexh), "--exhlen", str(el), "--seed", str(ctx.seed * 100 + i)], f"accstream-{i}.ndjson")
            for i in range(NSH)]
    return trace_stage(ctx, "acc-streams", cmds, "Trace_Acc", nontrivial=lambda e: e.get("op") == "feed")


def run_acc(ctx):
    acc_edges(ctx)
    acc_streams(ctx)


def _env(mm):
    w = mm["expected"].get("want") if isinstance(mm["expected"], dict) else None
    return w.get("env") if isinstance(w, dict) else None


def sel_c08(mm):
    # C08 quantifies over streams whose segments fit the capacity
    t = set(mm.get("tags", []))
    return _env(mm) == "fit" and bool(t & {"feed", "state", "conserve", "leaves", "ghost", "idx", "panic"})


def sel_c09(mm):
    t = set(mm.get("tags", []))
    return bool(t & {"panic", "progress", "crash"}) or _env(mm) == "nofit" or (_env(mm) is None)


ACC_ASSUME = [
    "TLC, CommunityModules, the Python driver and the harness's Shape/Val bridge are trusted",
    "the accumulator has no state besides (buf, idx), both read through the cfg-guarded hook; edge coverage of the model graph "
    "is therefore path coverage (DESIGN.md 5.C08); stale buffer contents are covered by two regimes",
    "MAXRUN = 254 (the cobs crate's constant) in the frame decoder used by the model",
]

# --------------------------------------------------------------------------- properties
WIRE_ASSUME = [
    "TLC, the CommunityModules Json/IOUtils modules and the Python driver are trusted",
    "the harness's dynamic Shape/Val <-> serde bridge calls exactly the serde method of each kind (hand-written, reviewed)",
    "usize/isize are 64-bit on this host",
    "bounded model checking covers only the stated constants; the real widths are bound through traces/vectors",
]


def run_c01(ctx):
    mc_varint(ctx)
    wire_vectors(ctx)
    wire_trace(ctx)


def run_c02(ctx):
    mc_varint(ctx)
    wire_vectors(ctx)
    wire_trace(ctx)


def run_c03(ctx):
    mc_varint(ctx)
    wire_vectors(ctx)
    wire_trace(ctx)
    exh16_trace(ctx)


REGISTRY = {
    "C08": dict(run=run_acc, select=sel_c08, assumptions=ACC_ASSUME,
                rule="edges: every (buffered bytes, chunk) transition of MC_Acc's graphs (N<=4..6, alphabet {0,1,2,3}, chunks<=4) replayed on "
                     "the real CobsAccumulator<N> under 2 stale-content regimes x feed/feed_ref; streams: random streams of valid/corrupt/empty/"
                     "garbage/over-long pieces under random chunkings and every chunking of short streams, through the documented loop; "
                     "non-trivial = feed events (loop bookkeeping events excluded)"),
    "C09": dict(run=run_acc, select=sel_c09, assumptions=ACC_ASSUME,
                rule="as C08, judged on the steps outside the fit environment (over-long segments, garbage), plus panics, loop progress "
                     "(iterations <= 2*len+2) and the index bound everywhere"),
    "C13": dict(run=run_c13, tags=None, assumptions=WIRE_ASSUME,
                rule="fixb events: the entire 16-bit domain (256 batch events x 256 values) for u16/i16 x le/be; rt events for the 8 integer "
                     "types x 2 orders on every single-byte-nonzero pattern, extremes, all-distinct-bytes and random values, bare and embedded "
                     "between ordinary fields, through all entry pairings, plus all truncations; a derived struct with #[serde(with)] on 16 fields; "
                     "values are built arithmetically from limbs"),
    "C01": dict(run=run_c01, tags={"rt", "crash"}, assumptions=WIRE_ASSUME,
                rule="events: one per (shape, value, encode entry, decode entry, tail) round trip, random shape trees over all kinds "
                     "(depth<=4) with boundary-structured values, cycling the 7x5 entry pairings, plus every MC_Wire state as a vector; "
                     "distinct = distinct event content; non-trivial = every rt event (all carry a value)"),
    "C02": dict(run=run_c02, tags={"enc", "seqhdr", "sequnk", "cstr", "crash"}, assumptions=WIRE_ASSUME,
                rule="rt events compared byte-for-byte with Wire!Enc; declared-length events for every power of two +-1 up to usize::MAX; "
                     "unknown-length and collect_str events; distinct event content"),
    "C03": dict(run=run_c03, tags={"dec", "decb", "crash"}, assumptions=WIRE_ASSUME,
                rule="dec events: every strict prefix, byte substitutions, bit flips, re-paddings, adversarial length prefixes, random bytes, "
                     "structured varint probes for every width; decb events: 256 outcomes per prefix for the 16-bit decoders "
                     "(all 1- and 2-byte strings, sampled or all 3-byte strings, sampled 4-byte strings); non-trivial = input not empty"),
}
