"""Property registry: which model-checking instances and which recorded-trace validations decide each property."""
import os
from . import core
from .core import tlc_mc, trace_stage, cargo_build, hbin, SPEC, WORK

NSH = 16  # shards


def tmpl(name, **kw):
    return open(os.path.join(SPEC, "mc", name + ".cfg.tmpl")).read() % kw


# --------------------------------------------------------------------------- model-checking stages
ALPHA12 = "{0,1,2,3,4,127,128,129,131,132,254,255}"


def mc_varint(ctx):
    """writer/reader loop machines vs functional definitions: W=16 exhaustive; scaled widths; 32/64/128 structured"""
    tlc_mc(ctx, "varint-w16-full", "MC_Varint", tmpl("MC_Varint", W=16, Full="TRUE", RAlpha=ALPHA12, RMaxLen=4))
    for w in ctx.pick([9, 13], [8, 9, 10, 11, 12, 13, 15]):  # not 14: max_of_last_byte is meaningless when 7 divides W (never the case for real widths)
        tlc_mc(ctx, f"varint-w{w}-full", "MC_Varint", tmpl("MC_Varint", W=w, Full="TRUE", RAlpha=ALPHA12, RMaxLen=(w + 6) // 7 + 1))
    for w in (32, 64, 128):
        tlc_mc(ctx, f"varint-w{w}-structured", "MC_Varint",
               tmpl("MC_Varint", W=w, Full="FALSE", RAlpha="{0,1,2,3,4,7,8,15,16,31,32,63,64,127,128,255}", RMaxLen=0))


def mc_wire(ctx, emit=False):
    cfg = tmpl("MC_Wire", Depth=ctx.pick(1, 2), MaxSeq=ctx.pick(2, 3), Emit="TRUE" if emit else "FALSE")
    return tlc_mc(ctx, "wire-shapes" + ("-vec" if emit else ""), "MC_Wire", cfg, workers=12, want_prefix='<<"VEC"' if emit else None,
                  timeout=ctx.pick(900, 7200))


# --------------------------------------------------------------------------- trace stages
def wire_trace(ctx):
    cargo_build(ctx, "h_core")
    n = ctx.pick(300, 4000)
    cmds = [([hbin("h_core"), "wire", "--n", str(n), "--seed", str(ctx.seed * 1000 + i), "--depth", str(3 if i % 4 else 4)], f"wire-{i}.ndjson") for i in range(NSH)]
    return trace_stage(ctx, "wire", cmds, "Trace_Wire", nontrivial=lambda e: not (e.get("op") == "dec" and e.get("input") == []))


def exh16_trace(ctx):
    cargo_build(ctx, "h_core")
    extra = ["--full3", "1"] if ctx.tier == "thorough" else ["--n3", "1024", "--n4", "256"]
    cmds = [([hbin("h_core"), "wire-exh16", "--seed", str(ctx.seed), "--shard", str(i), "--shards", str(NSH)] + extra, f"exh16-{i}.ndjson") for i in range(NSH)]
    return trace_stage(ctx, "exh16", cmds, "Trace_Wire")


def wire_vectors(ctx):
    """spec -> impl: every (shape, value) state of MC_Wire, with its re-padded encodings, executed on the real code"""
    cargo_build(ctx, "h_core")
    r = mc_wire(ctx, emit=True)
    d = os.path.join(WORK, "vec")
    os.makedirs(d, exist_ok=True)
    files = []
    lines = [core.unescape_tla(l[len('<<"VEC", "'):-3]) for l in r["lines"]]
    r["lines"] = []
    r["vectors"] = len(lines)
    per = (len(lines) + NSH - 1) // NSH
    cmds = []
    for i in range(NSH):
        chunk = lines[i * per:(i + 1) * per]
        if not chunk:
            continue
        p = os.path.join(d, f"wirevec-{ctx.tier}-{i}.json")
        open(p, "w").write("\n".join(chunk) + "\n")
        cmds.append(([hbin("h_core"), "wire-vec", "--in", p], f"wirevec-{i}.ndjson"))
    return trace_stage(ctx, "wire-vectors", cmds, "Trace_Wire")


# --------------------------------------------------------------------------- properties
WIRE_ASSUME = [
    "TLC, the CommunityModules Json/IOUtils modules and the Python driver are trusted",
    "the harness's dynamic Shape/Val <-> serde bridge calls exactly the serde method of each kind (hand-written, reviewed)",
    "usize/isize are 64-bit on this host",
    "bounded model checking covers only the stated constants; the real widths are bound through traces/vectors",
]


def run_c01(ctx):
    mc_varint(ctx)
    wire_vectors(ctx)
    wire_trace(ctx)


def run_c02(ctx):
    mc_varint(ctx)
    wire_vectors(ctx)
    wire_trace(ctx)


def run_c03(ctx):
    mc_varint(ctx)
    wire_vectors(ctx)
    wire_trace(ctx)
    exh16_trace(ctx)


REGISTRY = {
    "C01": dict(run=run_c01, tags={"rt", "crash"}, assumptions=WIRE_ASSUME,
                rule="events: one per (shape, value, encode entry, decode entry, tail) round trip, random shape trees over all kinds "
                     "(depth<=4) with boundary-structured values, cycling the 7x5 entry pairings, plus every MC_Wire state as a vector; "
                     "distinct = distinct event content; non-trivial = every rt event (all carry a value)"),
    "C02": dict(run=run_c02, tags={"enc", "seqhdr", "sequnk", "cstr", "crash"}, assumptions=WIRE_ASSUME,
                rule="rt events compared byte-for-byte with Wire!Enc; declared-length events for every power of two +-1 up to usize::MAX; "
                     "unknown-length and collect_str events; distinct event content"),
    "C03": dict(run=run_c03, tags={"dec", "decb", "crash"}, assumptions=WIRE_ASSUME,
                rule="dec events: every strict prefix, byte substitutions, bit flips, re-paddings, adversarial length prefixes, random bytes, "
                     "structured varint probes for every width; decb events: 256 outcomes per prefix for the 16-bit decoders "
                     "(all 1- and 2-byte strings, sampled or all 3-byte strings, sampled 4-byte strings); non-trivial = input not empty"),
}
