#!/bin/sh
# offline setup: build harness crates, parse all TLA+ modules
set -e
cd "$(dirname "$0")"
exec python3 ./check --setup
